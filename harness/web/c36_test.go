//go:build verif

package web

// C36: every HTML page of the web UI renders file contents, file names, repository and branch
// names, URLs made from repository templates and the query string as text.
//
// Shape I (exhaustive input enumeration). A case assigns attack payloads to one, two (and in
// the thorough tier three) "slots" = places where index or request text enters the UI:
//
//	index:   content (context lines, text before/after a match), contentmatch (inside the
//	         highlighted match), filename, repo, branch, version, language, fileurl / linefrag /
//	         commiturl (repository URL templates), repourl
//	request: query (q=), num, ctx, order, debug
//	result:  debug (score debug text of file and line matches)
//
// For every case a real shard is built with the ShardBuilder, loaded with index.NewSearcher and
// served through web.NewMux + httptest. Pages: results (template URLs), results with local
// print links, the print page reached by following the first print link, the repository list and
// the search box. Values a ShardBuilder refuses to store (templates that do not parse) and the
// debug text are put into the real search results by a thin zoekt.Streamer wrapper.
//
// Oracle (per page, against the "benign twin" = the same case with every payload replaced by a
// harmless alphanumeric word of the same role): HTTP 200; the element/attribute skeleton parsed
// with golang.org/x/net/html is identical (payload text may only change text nodes and the
// values of href/value/name/title attributes); no javascript:/vbscript:/data: URL in any URL
// attribute; inline scripts and on* handlers are identical after blanking string literals and
// every string literal is well formed; style is identical. A request the server rejects for a
// documented reason (query does not parse, order/ctx out of range) must be answered as
// text/plain + nosniff.

import (
	"bytes"
	"context"
	"encoding/json"
	"fmt"
	"io"
	"log"
	"net/http/httptest"
	"net/url"
	"regexp"
	"sort"
	"strconv"
	"strings"
	"sync"
	"sync/atomic"
	"testing"
	"unicode/utf8"

	"golang.org/x/net/html"

	"github.com/sourcegraph/zoekt"
	"github.com/sourcegraph/zoekt/index"
	"github.com/sourcegraph/zoekt/internal/verifshim/mc"
	"github.com/sourcegraph/zoekt/query"
)

// ---------------------------------------------------------------- payloads and slots

type c36Payload struct {
	name string
	text string
	core bool // used for pairs in the quick tier and for triples
	tiny bool // used for the low-value request parameters and for triples
}

var c36Payloads = []c36Payload{
	{"script", `<script>alert(1)</script>`, true, true},
	{"attr-dq", `"><img src=x onerror=alert(1)>`, true, false},
	{"attr-sq-unq", `' onmouseover='alert(1)' x= onfocus=alert(2) autofocus y=`, true, false},
	{"close-pre", `</pre></td></tr></table><h1>x</h1><pre>`, false, false},
	{"js-url", `javascript:alert(1)//`, true, true},
	{"tmpl-open", `{{`, false, false},
	{"tmpl-html", `{{"\"><svg onload=alert(1)>"}}`, true, false},
	{"tmpl-exec-err", `{{.Name.Nope.X}}{{.Path.Nope.X}}{{.LineNumber.Nope.X}}`, false, false},
	{"quotes", "a\"b'c\\d`e", true, true},
	{"js-string", `";alert(1);//';alert(2);//\`, true, false},
	{"amp", `&amp;&lt;b&gt;&#60;b&#62;<b>&`, false, false},
	{"ls-ps", "x\u2028alert(1)//\u2029y", true, false},
	{"bad-utf8", "a\xffb<i>\xc3(\xed\xa0\x80", true, true},
	{"close-script", `</script><script>alert(1)</script></title><h1>x</h1><!--`, true, false},
}

type c36Slot struct {
	name    string
	request bool // request-level: does not change the shard
	tiny    bool // only combined with the tiny payload set
}

var c36Slots = []c36Slot{
	{"content", false, false}, {"contentmatch", false, false}, {"filename", false, false}, {"repo", false, false},
	{"branch", false, false}, {"version", false, false}, {"language", false, false}, {"fileurl", false, false},
	{"linefrag", false, false}, {"commiturl", false, false}, {"repourl", false, false},
	{"query", true, false}, {"debug", true, false},
	{"num", true, true}, {"ctx", true, true}, {"order", true, true}, {"debugflag", true, true},
}

// c36Case is a sorted list of slot=payload assignments.
type c36Case struct {
	slots    []string
	payloads []*c36Payload
}

func (c *c36Case) id() string {
	var parts []string
	for i := range c.slots {
		parts = append(parts, c.slots[i]+"="+c.payloads[i].name)
	}
	return strings.Join(parts, ";")
}

func (c *c36Case) get(slot string) (string, bool) {
	for i, s := range c.slots {
		if s == slot {
			return c.payloads[i].text, true
		}
	}
	return "", false
}

// c36Cases enumerates every single, every pair (quick: pairs of core payloads that involve at
// most one repository-level slot; thorough: all)
// and, in the thorough tier, every triple over the tiny payload set.
func c36Cases(thorough bool) []*c36Case {
	type sp struct {
		slot *c36Slot
		p    *c36Payload
	}
	var all []sp
	for i := range c36Slots {
		for j := range c36Payloads {
			s, p := &c36Slots[i], &c36Payloads[j]
			if s.tiny && !p.tiny {
				continue
			}
			all = append(all, sp{s, p})
		}
	}
	var out []*c36Case
	for _, a := range all {
		out = append(out, &c36Case{[]string{a.slot.name}, []*c36Payload{a.p}})
	}
	for i, a := range all {
		for _, b := range all[i+1:] {
			if a.slot == b.slot {
				continue
			}
			if !thorough && !(a.p.core && b.p.core) {
				continue
			}
			// every distinct repository-level assignment costs one shard build (>= 32 MB of
			// builder state each): the quick tier does not pair two repository-level slots
			if !thorough && c36RepoSlotNames[a.slot.name] && c36RepoSlotNames[b.slot.name] {
				continue
			}
			out = append(out, &c36Case{[]string{a.slot.name, b.slot.name}, []*c36Payload{a.p, b.p}})
		}
	}
	if thorough {
		var tiny []sp
		for _, a := range all {
			if a.p.tiny && !a.slot.tiny {
				tiny = append(tiny, a)
			}
		}
		for i, a := range tiny {
			for j := i + 1; j < len(tiny); j++ {
				b := tiny[j]
				if a.slot == b.slot {
					continue
				}
				for _, c := range tiny[j+1:] {
					if c.slot == a.slot || c.slot == b.slot {
						continue
					}
					out = append(out, &c36Case{[]string{a.slot.name, b.slot.name, c.slot.name}, []*c36Payload{a.p, b.p, c.p}})
				}
			}
		}
	}
	return out
}

// ---------------------------------------------------------------- world = index + request for one assignment

// c36World holds the concrete values of every slot (payload or benign filler).
type c36World struct {
	content, contentMatch, fileName, repo, branch, version, language string
	fileURL, lineFrag, commitURL, repoURL                            string
	query                                                            string
	queryAssigned                                                    bool
	debugText                                                        string // "" = do not inject
	num, ctx, order, debugFlag                                       string
}

const (
	c36BenignFileURL   = "https://example.com/r/blob/{{.Version}}/{{.Path}}?b={{.Branch}}"
	c36BenignLineFrag  = "#L{{.LineNumber}}"
	c36BenignCommitURL = "https://example.com/r/commit/{{.Version}}?b={{.Name}}"
	c36EmptyTemplate   = "{{/*benign*/}}"
)

func c36Benign() *c36World {
	return &c36World{
		content: "plaintext", contentMatch: "matchtext", fileName: "dir/file.txt", repo: "benignrepo", branch: "main", version: "v123abc",
		language: "Go", fileURL: c36BenignFileURL, lineFrag: c36BenignLineFrag, commitURL: c36BenignCommitURL, repoURL: "https://example.com/r",
		query: "benignquery", num: "7", ctx: "1", order: "", debugFlag: "",
	}
}

// c36TemplateState classifies a template text the way the server will experience it.
func c36TemplateState(text string, data any) (parses bool, empty bool) {
	t, err := index.ParseTemplate(text)
	if err != nil {
		return false, true
	}
	var buf bytes.Buffer
	if err := t.Execute(&buf, data); err != nil {
		return true, true
	}
	return true, buf.Len() == 0
}

// c36Worlds returns the world of the case and its benign twin. The twin keeps everything that
// legitimately decides page structure: whether a URL template yields an empty URL.
func c36Worlds(c *c36Case) (w, twin *c36World) {
	w, twin = c36Benign(), c36Benign()
	for i, slot := range c.slots {
		p := c.payloads[i].text
		switch slot {
		case "content":
			w.content, twin.content = p, "benigncontent"
		case "contentmatch":
			w.contentMatch, twin.contentMatch = p, "benignmatch"
		case "filename":
			w.fileName, twin.fileName = "dir/"+p+".txt", "dir/benignname.txt"
		case "repo":
			w.repo, twin.repo = p, "benignrepo2"
		case "branch":
			w.branch, twin.branch = p, "benignbranch"
		case "version":
			w.version, twin.version = p, "benignversion"
		case "language":
			w.language, twin.language = p, "Benignlang"
		case "fileurl":
			w.fileURL = p + "/{{.Path}}"
			twin.fileURL = "benignurl/{{.Path}}"
			if _, empty := c36TemplateState(w.fileURL, map[string]string{"Branch": "b", "Version": "v", "Path": "p"}); empty {
				twin.fileURL = c36EmptyTemplate
			}
		case "linefrag":
			w.lineFrag, twin.lineFrag = p, "benignfrag"
		case "commiturl":
			w.commitURL = p + "/{{.Version}}"
			twin.commitURL = "benigncommit/{{.Version}}"
			if _, empty := c36TemplateState(w.commitURL, zoekt.RepositoryBranch{Name: "n", Version: "v"}); empty {
				twin.commitURL = c36EmptyTemplate
			}
		case "repourl":
			w.repoURL, twin.repoURL = p, "benignrepourl"
		case "query":
			w.query, twin.query = p, "benignq"
			w.queryAssigned, twin.queryAssigned = true, true
		case "debug":
			w.debugText, twin.debugText = p, "score:1.00"
		case "num":
			w.num, twin.num = p, "benignnum"
		case "ctx":
			w.ctx, twin.ctx = p, "1"
		case "order":
			w.order, twin.order = p, "name"
		case "debugflag":
			w.debugFlag, twin.debugFlag = p, "x"
		}
	}
	return w, twin
}

// repoKey identifies the repository-level part of a world (one real shard per value).
func (w *c36World) repoKey() string {
	return strings.Join([]string{w.repo, w.branch, w.version, w.fileURL, w.lineFrag, w.commitURL, w.repoURL}, "\x00")
}

// c36Doc is the document-level part of a world. Every shard holds one pair of documents
// (the document and a byte-identical copy under another name) per document variant; a
// variant is addressed by its number, which is part of its content, name and query.
type c36Doc struct {
	content, contentMatch, fileName, language string
}

func (w *c36World) doc() c36Doc { return c36Doc{w.content, w.contentMatch, w.fileName, w.language} }

var c36RepoSlotNames = map[string]bool{"repo": true, "branch": true, "version": true, "fileurl": true, "linefrag": true, "commiturl": true, "repourl": true}

var c36DocSlotNames = map[string]bool{"content": true, "contentmatch": true, "filename": true, "language": true}

var c36Thorough bool // set once by the test before any case runs

var (
	c36VariantsOnce sync.Once
	c36StdVariants  []c36Doc // in every shard: benign, twins, singles, (thorough) pairs of tiny payloads
	c36FullVariants []c36Doc // only with a benign repository: + all pairs of document-level slots
	c36StdIndex     map[c36Doc]int
	c36FullIndex    map[c36Doc]int
)

func c36InitVariants(thorough bool) {
	c36VariantsOnce.Do(func() {
		c36StdIndex, c36FullIndex = map[c36Doc]int{}, map[c36Doc]int{}
		add := func(d c36Doc, std bool) {
			if std {
				if _, ok := c36StdIndex[d]; !ok {
					c36StdIndex[d] = len(c36StdVariants)
					c36StdVariants = append(c36StdVariants, d)
				}
			}
			if _, ok := c36FullIndex[d]; !ok {
				c36FullIndex[d] = len(c36FullVariants)
				c36FullVariants = append(c36FullVariants, d)
			}
		}
		add(c36Benign().doc(), true)
		for _, c := range c36Cases(thorough) {
			docOnly, tiny := true, true
			for i, sl := range c.slots {
				if !c36DocSlotNames[sl] {
					docOnly = false
				}
				if !c.payloads[i].tiny {
					tiny = false
				}
			}
			if !docOnly {
				continue
			}
			w, twin := c36Worlds(c)
			add(twin.doc(), true)
			add(w.doc(), len(c.slots) == 1 || (tiny && thorough))
		}
	})
}

// c36Searcher wraps the real index searcher: it adds what a ShardBuilder cannot store.
type c36Searcher struct {
	zoekt.Searcher
	repo                         string
	fileURL, lineFrag, commitURL *string // non-nil: override (template text the builder rejected)
	debugText                    string
}

func (s *c36Searcher) StreamSearch(ctx context.Context, q query.Q, opts *zoekt.SearchOptions, sender zoekt.Sender) error {
	r, err := s.Search(ctx, q, opts)
	if err != nil {
		return err
	}
	sender.Send(r)
	return nil
}

func (s *c36Searcher) Search(ctx context.Context, q query.Q, opts *zoekt.SearchOptions) (*zoekt.SearchResult, error) {
	r, err := s.Searcher.Search(ctx, q, opts)
	if err != nil || r == nil {
		return r, err
	}
	if s.fileURL != nil && r.RepoURLs != nil {
		r.RepoURLs[s.repo] = *s.fileURL
	}
	if s.lineFrag != nil && r.LineFragments != nil {
		r.LineFragments[s.repo] = *s.lineFrag
	}
	if s.debugText != "" {
		for i := range r.Files {
			r.Files[i].Debug = s.debugText
			for j := range r.Files[i].LineMatches {
				r.Files[i].LineMatches[j].DebugScore = s.debugText
			}
		}
	}
	return r, nil
}

func (s *c36Searcher) List(ctx context.Context, q query.Q, opts *zoekt.ListOptions) (*zoekt.RepoList, error) {
	r, err := s.Searcher.List(ctx, q, opts)
	if err != nil || r == nil {
		return r, err
	}
	if s.commitURL != nil {
		for _, e := range r.Repos {
			e.Repository.CommitURLTemplate = *s.commitURL
		}
	}
	return r, nil
}

type c36MemFile struct{ data []byte }

func (f *c36MemFile) Read(off, sz uint32) ([]byte, error) {
	if uint64(off)+uint64(sz) > uint64(len(f.data)) {
		return nil, fmt.Errorf("out of bounds")
	}
	return f.data[off : off+sz], nil
}
func (f *c36MemFile) Size() (uint32, error) { return uint32(len(f.data)), nil }
func (f *c36MemFile) Close()                {}
func (f *c36MemFile) Name() string          { return "c36.zoekt" }

type c36Index struct {
	searcher                     zoekt.Searcher
	fileURL, lineFrag, commitURL *string
	variants                     map[c36Doc]int
	err                          error
}

var (
	c36IndexMu    sync.Mutex
	c36IndexCache = map[string]*c36IndexEntry{}
	c36Builds     atomic.Int64
)

type c36IndexEntry struct {
	once sync.Once
	idx  *c36Index
}

// c36BuildIndex builds (once per distinct repository-level assignment) the real shard that
// holds the world's document, and returns it with the document's variant number.
func c36BuildIndex(w *c36World) (*c36Index, int) {
	c36InitVariants(c36Thorough)
	set, variants, vidx := "std", c36StdVariants, c36StdIndex
	if _, ok := vidx[w.doc()]; !ok {
		set, variants, vidx = "full", c36FullVariants, c36FullIndex
		if _, ok := vidx[w.doc()]; !ok {
			return &c36Index{err: fmt.Errorf("document variant %q not planned", w.doc())}, 0
		}
	}
	k := set + "\x00" + w.repoKey()
	c36IndexMu.Lock()
	e := c36IndexCache[k]
	if e == nil {
		e = &c36IndexEntry{}
		c36IndexCache[k] = e
	}
	c36IndexMu.Unlock()
	e.once.Do(func() {
		e.idx = c36BuildIndexUncached(w, variants)
		e.idx.variants = vidx
	})
	return e.idx, vidx[w.doc()]
}

func c36DocNames(v int, d c36Doc) (name, copyName string) {
	return fmt.Sprintf("v%04d/%s", v, d.fileName), fmt.Sprintf("zz%04d/copy.txt", v)
}

func c36BuildIndexUncached(w *c36World, variants []c36Doc) *c36Index {
	c36Builds.Add(1)
	idx := &c36Index{}
	repo := &zoekt.Repository{
		Name: w.repo, ID: 1, URL: w.repoURL,
		FileURLTemplate: w.fileURL, LineFragmentTemplate: w.lineFrag, CommitURLTemplate: w.commitURL,
		Branches: []zoekt.RepositoryBranch{{Name: w.branch, Version: w.version}, {Name: "other", Version: "v2"}},
	}
	// templates the builder refuses are stored as benign ones and substituted in the results
	if ok, _ := c36TemplateState(w.fileURL, nil); !ok {
		s := w.fileURL
		idx.fileURL = &s
		repo.FileURLTemplate = c36BenignFileURL
	}
	if ok, _ := c36TemplateState(w.lineFrag, nil); !ok {
		s := w.lineFrag
		idx.lineFrag = &s
		repo.LineFragmentTemplate = c36BenignLineFrag
	}
	if ok, _ := c36TemplateState(w.commitURL, nil); !ok {
		s := w.commitURL
		idx.commitURL = &s
		repo.CommitURLTemplate = c36BenignCommitURL
	}
	b, err := index.NewShardBuilder(repo)
	if err != nil {
		idx.err = err
		return idx
	}
	for v, d := range variants {
		content := d.content + "\n" + // the file BEGINS with the payload (what content sniffing looks at)
			"before " + d.content + "\n" +
			d.content + fmt.Sprintf(" needle%04d ", v) + d.content + "\n" +
			// the same match on a long line: the result page cuts the text before and after a match
			// to 100 bytes each (LimitPre/LimitPost), the payload lies inside the part that is kept
			strings.Repeat("x", 130) + d.content + fmt.Sprintf(" needle%04d ", v) + d.content + strings.Repeat("y", 130) + "\n" +
			// a line whose text after the match is 101 bytes and ends in a two-byte rune that straddles the
			// 100-byte cut (the cut must not depend on finding a later rune start)
			fmt.Sprintf("needle%04d ", v) + strings.Repeat("z", 98) + "é\n" +
			"after " + d.content + "\n" +
			fmt.Sprintf("hay%04d ", v) + d.contentMatch + " stack\n" +
			"tail\n"
		name, copyName := c36DocNames(v, d)
		for _, doc := range []index.Document{
			{Name: name, Content: []byte(content), Branches: []string{w.branch}, Language: d.language, Category: index.FileCategoryDefault},
			{Name: copyName, Content: []byte(content), Branches: []string{w.branch, "other"}, Language: d.language, Category: index.FileCategoryDefault},
		} {
			if err := b.Add(doc); err != nil {
				idx.err = err
				return idx
			}
		}
	}
	if err := b.Add(index.Document{Name: "zz/other.txt", Content: []byte("nothing to see here\n"), Branches: []string{"other"}, Language: "Text", Category: index.FileCategoryDefault}); err != nil {
		idx.err = err
		return idx
	}
	var buf bytes.Buffer
	if err := b.Write(&buf); err != nil {
		idx.err = err
		return idx
	}
	s, err := index.NewSearcher(&c36MemFile{buf.Bytes()})
	if err != nil {
		idx.err = err
		return idx
	}
	idx.searcher = s
	return idx
}

// ---------------------------------------------------------------- fetching pages

type c36Page struct {
	name    string
	status  int
	ctype   string
	nosniff bool
	body    []byte
	url     string
}

func c36QuoteQuery(p string) string {
	// a quoted query atom whose text is the payload taken literally
	// (prefixed with a word that occurs in no document, so that the atom never adds results)
	q := "nosuchword" + regexp.QuoteMeta(p)
	q = strings.ReplaceAll(q, `\`, `\\`)
	q = strings.ReplaceAll(q, `"`, `\"`)
	return `"` + q + `"`
}

// c36Fetch renders every page of one world. A handler panic is reported as status -1.
func c36Fetch(w *c36World) ([]*c36Page, error) {
	idx, v := c36BuildIndex(w)
	if idx.err != nil {
		return nil, idx.err
	}
	stored := c36Stored(w.repo)
	searcher := &c36Searcher{Searcher: idx.searcher, repo: stored, fileURL: idx.fileURL, lineFrag: idx.lineFrag, commitURL: idx.commitURL, debugText: w.debugText}
	mk := func(print bool) (func(name, u string) *c36Page, error) {
		srv := &Server{Searcher: searcher, HTML: true, Print: print, Top: Top, Version: "verif"}
		mux, err := NewMux(srv)
		if err != nil {
			return nil, err
		}
		return func(name, u string) (pg *c36Page) {
			pg = &c36Page{name: name, url: u}
			defer func() {
				if r := recover(); r != nil {
					pg.status = -1
					pg.body = []byte(fmt.Sprint("handler panicked: ", r))
				}
			}()
			req := httptest.NewRequest("GET", u, nil)
			rec := httptest.NewRecorder()
			mux.ServeHTTP(rec, req)
			pg.status = rec.Code
			pg.ctype = rec.Header().Get("Content-Type")
			pg.nosniff = rec.Header().Get("X-Content-Type-Options") == "nosniff"
			pg.body = rec.Body.Bytes()
			return pg
		}, nil
	}
	getT, err := mk(false)
	if err != nil {
		return nil, err
	}
	getP, err := mk(true)
	if err != nil {
		return nil, err
	}
	base := fmt.Sprintf("needle%04d or hay%04d.*stack", v, v)
	q := base
	rq := "r:"
	if w.queryAssigned {
		q = base + " or " + c36QuoteQuery(w.query)
		rq = "r: or r:" + c36QuoteQuery(w.query)
	}
	params := func(q string, list bool) string {
		v := url.Values{}
		v.Set("q", q)
		v.Set("num", w.num)
		if !list {
			v.Set("ctx", w.ctx)
		}
		if w.order != "" && list {
			v.Set("order", w.order)
		}
		if w.debugFlag != "" {
			v.Set("debug", w.debugFlag)
		}
		return v.Encode()
	}
	var pages []*c36Page
	pages = append(pages, getT("results", "/search?"+params(q, false)))
	rp := getP("results-print", "/search?"+params(q, false))
	pages = append(pages, rp)
	pages = append(pages, getT("repolist", "/search?"+params(rq, true)))
	// follow the first print link of the results page, as a browser would
	if rp.status == 200 {
		if href := c36FirstPrintLink(rp.body); href != "" {
			pages = append(pages, getP("print", "/"+href))
		} else {
			pages = append(pages, &c36Page{name: "print", status: -2, body: []byte("no print link on the results page")})
		}
	}
	// the print page and the search box take q without parsing it
	pv := url.Values{}
	pv.Set("r", stored)
	_, copyName := c36DocNames(v, w.doc())
	pv.Set("f", copyName)
	pv.Set("b", "other")
	pv.Set("q", w.query)
	pv.Set("num", w.num)
	pages = append(pages, getP("print-direct", "/print?"+pv.Encode()))
	// the raw view of the same file: index content served as is, so it must be declared as plain text
	pv.Set("format", "raw")
	pages = append(pages, getP("print-raw", "/print?"+pv.Encode()))
	bv := url.Values{}
	bv.Set("q", w.query)
	pages = append(pages, getT("box", "/?"+bv.Encode()))
	return pages, nil
}

// c36Stored is the repository name as a shard holds it: repository metadata is stored as JSON,
// which replaces invalid UTF-8.
func c36Stored(name string) string {
	b, err := json.Marshal(name)
	if err != nil {
		return name
	}
	var out string
	if err := json.Unmarshal(b, &out); err != nil {
		return name
	}
	return out
}

func c36FirstPrintLink(body []byte) string {
	doc, err := html.Parse(bytes.NewReader(body))
	if err != nil {
		return ""
	}
	var found string
	var walk func(n *html.Node)
	walk = func(n *html.Node) {
		if found != "" {
			return
		}
		if n.Type == html.ElementNode && n.Data == "a" {
			for _, a := range n.Attr {
				if a.Key == "href" && strings.HasPrefix(a.Val, "print?") && !strings.Contains(a.Val, "#") {
					found = a.Val
					return
				}
			}
		}
		for c := n.FirstChild; c != nil; c = c.NextSibling {
			walk(c)
		}
	}
	walk(doc)
	return found
}

// ---------------------------------------------------------------- analysis of one page

type c36Analysis struct {
	skeleton string
	problems []string // oracle violations that do not need the twin
}

var c36DataAttrs = map[string]bool{"href": true, "value": true, "name": true, "title": true}
var c36URLAttrs = map[string]bool{"href": true, "src": true, "action": true, "formaction": true, "data": true, "poster": true, "background": true, "ping": true, "manifest": true, "xlink:href": true, "srcdoc": true}

func c36DangerousURL(v string) bool {
	s := strings.TrimLeftFunc(v, func(r rune) bool { return r <= 0x20 })
	s = strings.Map(func(r rune) rune {
		if r == '\t' || r == '\n' || r == '\r' {
			return -1
		}
		return r
	}, s)
	s = strings.ToLower(s)
	for _, scheme := range []string{"javascript:", "vbscript:", "data:", "livescript:"} {
		if strings.HasPrefix(s, scheme) {
			return true
		}
	}
	return false
}

// c36NormJS blanks the contents of string literals; ok=false if a literal is malformed
// (unterminated, or contains a raw line terminator, which ends a JS string).
func c36NormJS(src string) (norm string, ok bool) {
	var sb strings.Builder
	ok = true
	i := 0
	for i < len(src) {
		c := src[i]
		switch {
		case c == '"' || c == '\'' || c == '`':
			q := c
			sb.WriteByte(q)
			i++
			closed := false
			for i < len(src) {
				r, sz := utf8.DecodeRuneInString(src[i:])
				if r == '\\' {
					i += sz
					if i < len(src) {
						_, sz2 := utf8.DecodeRuneInString(src[i:])
						i += sz2
					}
					continue
				}
				if byte(r) == q && sz == 1 {
					i++
					closed = true
					break
				}
				if q != '`' && (r == '\n' || r == '\r' || r == 0x2028 || r == 0x2029) {
					ok = false
				}
				i += sz
			}
			if !closed {
				ok = false
			}
			sb.WriteByte(q)
		case c == '/' && i+1 < len(src) && src[i+1] == '/':
			for i < len(src) && src[i] != '\n' {
				i++
			}
		case c == '/' && i+1 < len(src) && src[i+1] == '*':
			j := strings.Index(src[i+2:], "*/")
			if j < 0 {
				i = len(src)
			} else {
				i += j + 4
			}
		default:
			sb.WriteByte(c)
			i++
		}
	}
	return sb.String(), ok
}

func c36Analyse(body []byte) (*c36Analysis, error) {
	doc, err := html.Parse(bytes.NewReader(body))
	if err != nil {
		return nil, err
	}
	a := &c36Analysis{}
	var sb strings.Builder
	var walk func(n *html.Node, depth int)
	walk = func(n *html.Node, depth int) {
		switch n.Type {
		case html.ElementNode:
			fmt.Fprintf(&sb, "%*s<%s", depth, "", n.Data)
			attrs := append([]html.Attribute{}, n.Attr...)
			sort.Slice(attrs, func(i, j int) bool { return attrs[i].Key < attrs[j].Key })
			for _, at := range attrs {
				key := at.Key
				if at.Namespace != "" {
					key = at.Namespace + ":" + key
				}
				switch {
				case strings.HasPrefix(key, "on"):
					norm, ok := c36NormJS(at.Val)
					if !ok {
						a.problems = append(a.problems, fmt.Sprintf("malformed string literal in %s handler of <%s>: %q", key, n.Data, at.Val))
					}
					fmt.Fprintf(&sb, " %s={%s}", key, norm)
				case c36DataAttrs[key]:
					fmt.Fprintf(&sb, " %s", key)
				default:
					fmt.Fprintf(&sb, " %s=%q", key, at.Val)
				}
				if c36URLAttrs[key] && c36DangerousURL(at.Val) {
					a.problems = append(a.problems, fmt.Sprintf("script URL in %s of <%s>: %q", key, n.Data, at.Val))
				}
			}
			sb.WriteString(">\n")
			if n.Data == "script" || n.Data == "style" {
				var text strings.Builder
				for c := n.FirstChild; c != nil; c = c.NextSibling {
					if c.Type == html.TextNode {
						text.WriteString(c.Data)
					}
				}
				if n.Data == "script" {
					norm, ok := c36NormJS(text.String())
					if !ok {
						a.problems = append(a.problems, fmt.Sprintf("malformed string literal in inline script: %q", text.String()))
					}
					fmt.Fprintf(&sb, "%*s{%s}\n", depth+1, "", norm)
				} else {
					fmt.Fprintf(&sb, "%*s{%s}\n", depth+1, "", text.String())
				}
				return
			}
		case html.CommentNode:
			fmt.Fprintf(&sb, "%*s<!--%s-->\n", depth, "", n.Data)
		case html.DoctypeNode:
			fmt.Fprintf(&sb, "%*s<!doctype %s>\n", depth, "", n.Data)
		}
		for c := n.FirstChild; c != nil; c = c.NextSibling {
			walk(c, depth+1)
		}
	}
	walk(doc, 0)
	a.skeleton = sb.String()
	return a, nil
}

func c36FirstDiff(a, b string) string {
	la, lb := strings.Split(a, "\n"), strings.Split(b, "\n")
	for i := 0; i < len(la) || i < len(lb); i++ {
		var x, y string
		if i < len(la) {
			x = la[i]
		}
		if i < len(lb) {
			y = lb[i]
		}
		if x != y {
			return fmt.Sprintf("line %d of the skeleton:\n  with payload: %s\n  benign twin : %s", i+1, strings.TrimSpace(x), strings.TrimSpace(y))
		}
	}
	return "no difference"
}

// ---------------------------------------------------------------- twin cache

type c36TwinPage struct {
	status   int
	analysis *c36Analysis
	failure  string // the benign rendering itself is broken: reported for every case that uses it
}

type c36TwinEntry struct {
	once  sync.Once
	pages map[string]*c36TwinPage
	err   error
}

var (
	c36TwinMu    sync.Mutex
	c36TwinCache = map[string]*c36TwinEntry{}
)

func c36TwinPages(twin *c36World) (map[string]*c36TwinPage, error) {
	k := fmt.Sprintf("%#v", *twin)
	c36TwinMu.Lock()
	e := c36TwinCache[k]
	if e == nil {
		e = &c36TwinEntry{}
		c36TwinCache[k] = e
	}
	c36TwinMu.Unlock()
	e.once.Do(func() {
		pages, err := c36Fetch(twin)
		if err != nil {
			e.err = err
			return
		}
		e.pages = map[string]*c36TwinPage{}
		for _, p := range pages {
			tp := &c36TwinPage{status: p.status}
			e.pages[p.name] = tp
			if p.status != 200 {
				tp.failure = fmt.Sprintf("GET %s\nstatus %d\nbody: %.400q", p.url, p.status, p.body)
				continue
			}
			if p.name == "print-raw" {
				continue // not an HTML page
			}
			an, err := c36Analyse(p.body)
			if err != nil {
				tp.failure = fmt.Sprintf("GET %s\nunparsable HTML: %v", p.url, err)
				continue
			}
			if len(an.problems) > 0 {
				tp.failure = fmt.Sprintf("GET %s\n%s", p.url, strings.Join(an.problems, "\n"))
				continue
			}
			tp.analysis = an
		}
	})
	return e.pages, e.err
}

// c36LegitReject says whether the server may refuse the request of this page for a documented
// reason that has nothing to do with rendering.
func c36LegitReject(w *c36World, page string) (bool, string) {
	switch page {
	case "results", "results-print", "repolist":
		if w.queryAssigned {
			if _, err := query.Parse(c36QuoteQuery(w.query)); err != nil {
				return true, "query does not parse: " + err.Error()
			}
		}
		if page == "repolist" {
			switch w.order {
			case "", "name", "revname", "size", "revsize", "ram", "revram", "time", "revtime":
			default:
				return true, "unknown sort key"
			}
		} else {
			if n, err := strconv.Atoi(w.ctx); err != nil || n < 0 || n > 10 {
				return true, "ctx out of range"
			}
		}
	}
	return false, ""
}

// ---------------------------------------------------------------- the check

const c36BenignFails = "rendering fails even with harmless values"

type c36Finding struct {
	page, what, detail string
}

func c36RunCase(c *c36Case) (findings []c36Finding, nontrivial []string, err error) {
	w, twin := c36Worlds(c)
	tpages, err := c36TwinPages(twin)
	if err != nil {
		return nil, nil, fmt.Errorf("twin: %w", err)
	}
	pages, err := c36Fetch(w)
	if err != nil {
		return nil, nil, err
	}
	seen := map[string]bool{}
	for _, p := range pages {
		seen[p.name] = true
		tp := tpages[p.name]
		if tp != nil && tp.failure != "" {
			findings = append(findings, c36Finding{p.name, c36BenignFails, tp.failure})
			continue
		}
		if p.status != 200 {
			if ok, why := c36LegitReject(w, p.name); ok && p.status == 418 {
				if !strings.HasPrefix(p.ctype, "text/plain") || !p.nosniff {
					findings = append(findings, c36Finding{p.name, "error reply is not text/plain+nosniff",
						fmt.Sprintf("GET %s\nrejected (%s) with Content-Type %q nosniff=%v\nbody: %.300q", p.url, why, p.ctype, p.nosniff, p.body)})
				}
				continue
			}
			what := fmt.Sprintf("status %d instead of 200", p.status)
			if p.status == -1 {
				what = "handler panicked"
			}
			if p.status == -2 {
				what = "no print link"
			}
			findings = append(findings, c36Finding{p.name, what, fmt.Sprintf("GET %s\nstatus %d (the benign twin renders with 200)\nbody: %.400q", p.url, p.status, p.body)})
			continue
		}
		if tp == nil {
			// the twin did not get this far (its results page failed, reported above)
			continue
		}
		if p.name == "print-raw" {
			if !strings.HasPrefix(p.ctype, "text/plain") || !p.nosniff {
				findings = append(findings, c36Finding{p.name, "raw file view is not served as text/plain+nosniff",
					fmt.Sprintf("GET %s\nContent-Type %q nosniff=%v\nbody begins: %.200q", p.url, p.ctype, p.nosniff, p.body)})
			}
			for i := range c.slots {
				if c36Reached(p.body, c.payloads[i].text) {
					nontrivial = append(nontrivial, p.name+"|"+c.slots[i]+"="+c.payloads[i].name)
				}
			}
			continue
		}
		an, err := c36Analyse(p.body)
		if err != nil {
			findings = append(findings, c36Finding{p.name, "unparsable HTML", err.Error()})
			continue
		}
		for _, pr := range an.problems {
			what := pr
			if i := strings.Index(what, ":"); i > 0 {
				what = what[:i]
			}
			findings = append(findings, c36Finding{p.name, what, fmt.Sprintf("GET %s\n%s", p.url, pr)})
		}
		if an.skeleton != tp.analysis.skeleton {
			findings = append(findings, c36Finding{p.name, "markup differs from the benign rendering",
				fmt.Sprintf("GET %s\nfirst difference at %s", p.url, c36FirstDiff(an.skeleton, tp.analysis.skeleton))})
		}
		// non-trivial: some payload text really reached this page
		for i := range c.slots {
			if c36Reached(p.body, c.payloads[i].text) {
				nontrivial = append(nontrivial, p.name+"|"+c.slots[i]+"="+c.payloads[i].name)
			}
		}
	}
	for name := range tpages {
		if name == "print" && !seen[name] {
			if ok, _ := c36LegitReject(w, "results-print"); ok {
				continue
			}
		}
		if !seen[name] {
			findings = append(findings, c36Finding{name, "page not rendered", "the benign twin has this page, the payload case does not (an earlier page failed)"})
		}
	}
	return findings, nontrivial, nil
}

// c36Reached reports whether a recognisable piece of the payload (its longest alphanumeric run)
// occurs in the page body.
func c36Reached(body []byte, payload string) bool {
	best := ""
	cur := ""
	for _, r := range payload + "\x00" {
		if r < 0x80 && (r >= 'a' && r <= 'z' || r >= 'A' && r <= 'Z' || r >= '0' && r <= '9') {
			cur += string(r)
			continue
		}
		if len(cur) > len(best) {
			best = cur
		}
		cur = ""
	}
	if len(best) < 2 {
		return bytes.Contains(body, []byte(html.EscapeString(payload))) || bytes.Contains(body, []byte(payload))
	}
	return bytes.Contains(body, []byte(best))
}

func TestVerifC36(t *testing.T) {
	log.SetOutput(io.Discard)
	r := mc.NewReport("C36")
	c36Thorough = r.Thorough()
	cases := c36Cases(r.Thorough())
	// smaller cases first: a pair is only reported when none of its parts fails the same way alone
	sort.SliceStable(cases, func(i, j int) bool { return len(cases[i].slots) < len(cases[j].slots) })
	type res struct {
		findings []c36Finding
		err      error
		done     bool
	}
	results := make([]res, len(cases))
	run := func(lo, hi int) {
		var cut atomic.Bool
		mc.ParallelFor(hi-lo, func(i int) {
			c := cases[lo+i]
			if !r.Want(c.id()) {
				return
			}
			if r.Expired() {
				cut.Store(true)
				return
			}
			f, nt, err := c36RunCase(c)
			results[lo+i] = res{f, err, true}
			r.Eval(1)
			for _, k := range nt {
				r.Nontrivial(k)
			}
		})
		if cut.Load() {
			r.Incomplete("budget used up inside cases with %d slots", len(cases[lo].slots))
		}
	}
	// process by size class so that the suppression below is deterministic
	start := 0
	for start < len(cases) {
		end := start
		for end < len(cases) && len(cases[end].slots) == len(cases[start].slots) {
			end++
		}
		run(start, end)
		start = end
	}
	failing := map[string]bool{} // "slot=payload|page|what" of smaller cases
	for i, c := range cases {
		rs := results[i]
		if !rs.done {
			continue
		}
		if rs.err != nil {
			r.Violation("TOOL: C36 harness error in case "+c.id(), rs.err.Error(), map[string]any{"case": c.id()})
			continue
		}
		for _, f := range rs.findings {
			covered := false
			if len(c.slots) > 1 {
				for j := range c.slots {
					if failing[c.slots[j]+"="+c.payloads[j].name+"|"+f.page+"|"+f.what] {
						covered = true
					}
				}
			}
			for j := range c.slots {
				if len(c.slots) == 1 {
					failing[c.slots[j]+"="+c.payloads[j].name+"|"+f.page+"|"+f.what] = true
				}
			}
			if covered {
				r.Add("findings_covered_by_a_smaller_case", 1)
				continue
			}
			var vals []string
			for j := range c.slots {
				vals = append(vals, fmt.Sprintf("%s=%q", c.slots[j], c.payloads[j].text))
			}
			if f.what == c36BenignFails {
				r.Violation(fmt.Sprintf("C36 %s page: %s", f.page, f.what), f.detail, map[string]any{"case": c.id()})
				continue
			}
			r.Violation(fmt.Sprintf("C36 %s page: %s [%s]", f.page, f.what, c.id()),
				fmt.Sprintf("case %s\n%s\n%s", c.id(), strings.Join(vals, "\n"), f.detail), map[string]any{"case": c.id()})
		}
	}
	r.Set("cases", len(cases))
	r.Set("payloads", len(c36Payloads))
	r.Set("slots", len(c36Slots))
	r.Set("shards_built", int(c36Builds.Load()))
	for i := 0; i < len(cases) && i < 3; i++ {
		c := cases[i*len(cases)/3]
		r.Sample(map[string]any{"case": c.id()})
	}
	r.Assume("pages are parsed with golang.org/x/net/html (a WHATWG-conforming parser); its tree is taken as what a browser would build")
	r.Assume("the searcher is index.NewSearcher over a real shard per case; template texts the ShardBuilder rejects and score-debug text are substituted into the real results by a wrapper")
	r.Assume("a pair/triple is only reported when none of its single assignments already fails the same way on the same page")
	r.Finish("case = assignment of 1, 2 (quick: core payloads, at most one repository-level slot; thorough: all) or 3 (thorough, tiny payload set) payloads to distinct slots out of " +
		strconv.Itoa(len(c36Slots)) + " slots × " + strconv.Itoa(len(c36Payloads)) + " payloads; each case renders results, results-with-print-links, print (followed link), print (direct), repository list and search box; non-trivial = (page, slot=payload) where the payload text really occurs in the served page")
}
