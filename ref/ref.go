// Package ref is the reference model of zoekt's search semantics used as the
// oracle by the /verif harnesses. It is deliberately boring: every atom is
// decided by scanning the whole file content or file name; there is no index,
// no candidate pre-filter, no cost levels. Regular expressions are decided two
// ways that must agree: by the standard library engine (leftmost-first match
// lists) and by SetMatcher, a tiny backtracking matcher over the parsed syntax
// tree that enumerates every possible match end (used for "is [s,e) a match
// at that position").
package ref

import (
	"bytes"
	"fmt"
	"regexp"
	"sort"
	"strings"
	"sync"
	"unicode"
	"unicode/utf8"

	"github.com/sourcegraph/zoekt/query"
)

// Repo is one repository of a corpus.
type Repo struct {
	Name           string
	ID             uint32
	TenantID       int
	Branches       []string // index = bit in the branch mask; Branches[0] is what "HEAD" means
	Versions       []string
	RawConfig      map[string]string
	Metadata       map[string]string
	Tombstone      bool
	FileTombstones map[string]bool
	Docs           []*Doc
}

// Doc is one document.
type Doc struct {
	Name     string
	Content  []byte
	Branches []string
	Language string
	Symbols  [][2]int // byte ranges of symbol sections, sorted, disjoint
	Skipped  bool     // content is a NOT-INDEXED explanation (filled in by the harness)
}

// Live reports whether the document may appear in results at all.
func Live(r *Repo, d *Doc) bool {
	if r.Tombstone {
		return false
	}
	if r.FileTombstones[d.Name] {
		return false
	}
	return true
}

func (r *Repo) branchIndex(name string) int {
	for i, b := range r.Branches {
		if b == name {
			return i
		}
	}
	return -1
}

func (d *Doc) on(branch string) bool {
	for _, b := range d.Branches {
		if b == branch {
			return true
		}
	}
	return false
}

// Unsupported is returned (as a panic value) for query nodes the model does not define.
type Unsupported struct{ What string }

// Eval decides whether query q is true on document d of repository r.
func Eval(q query.Q, r *Repo, d *Doc) bool {
	switch s := q.(type) {
	case *query.And:
		for _, c := range s.Children {
			if !Eval(c, r, d) {
				return false
			}
		}
		return true
	case *query.Or:
		for _, c := range s.Children {
			if Eval(c, r, d) {
				return true
			}
		}
		return false
	case *query.Not:
		return !Eval(s.Child, r, d)
	case *query.Const:
		return s.Value
	case *query.Type:
		if s.Type == query.TypeFileName || s.Type == query.TypeFileMatch {
			return Eval(s.Child, r, d)
		}
		panic(Unsupported{"type:repo needs the corpus; use EvalCorpus"})
	case *query.Boost:
		return Eval(s.Child, r, d)
	case *query.Substring:
		name, content := fields(s.FileName, s.Content)
		return (name && SubstringRanges(s.Pattern, s.CaseSensitive, []byte(d.Name)) != nil) ||
			(content && SubstringRanges(s.Pattern, s.CaseSensitive, d.Content) != nil)
	case *query.Regexp:
		name, content := fields(s.FileName, s.Content)
		re := CompileStd(s.Regexp.String(), s.CaseSensitive)
		return (name && re.Match([]byte(d.Name))) || (content && re.Match(d.Content))
	case *query.Symbol:
		return len(SymbolRanges(s, d)) > 0
	case *query.Language:
		return d.Language == s.Language
	case *query.Branch:
		if s.Pattern == "" {
			return true
		}
		return BranchMask(s, r, d) != 0
	case *query.BranchesRepos:
		for _, br := range s.List {
			if br.Repos != nil && br.Repos.Contains(r.ID) && d.on(br.Branch) && r.branchIndex(br.Branch) >= 0 {
				return true
			}
		}
		return false
	case *query.Repo:
		return CompileStd(s.Regexp.String(), true).MatchString(r.Name)
	case *query.RepoRegexp:
		return CompileStd(s.Regexp.String(), true).MatchString(r.Name)
	case *query.RepoSet:
		return s.Set[r.Name]
	case *query.RepoIDs:
		return s.Repos != nil && s.Repos.Contains(r.ID)
	case query.RawConfig:
		return RawConfigMatches(s, r.RawConfig)
	case *query.Meta:
		v, ok := r.Metadata[s.Field]
		return ok && CompileStd(s.Value.String(), true).MatchString(v)
	case *query.FileNameSet:
		_, ok := s.Set[d.Name]
		return ok
	}
	panic(Unsupported{fmt.Sprintf("%T", q)})
}

func fields(fileName, content bool) (n, c bool) {
	if fileName == content {
		return true, true
	}
	return fileName, content
}

// RawConfigMatches implements the documented flag semantics: a flag f is "yes"
// iff RawConfig[f]=="1"; only-X requires yes, no-X requires not yes.
func RawConfigMatches(rc query.RawConfig, m map[string]string) bool {
	yes := func(k string) bool { return m[k] == "1" }
	checks := []struct {
		mask query.RawConfig
		ok   bool
	}{
		{query.RcOnlyPublic, yes("public")},
		{query.RcOnlyPrivate, !yes("public")},
		{query.RcOnlyForks, yes("fork")},
		{query.RcNoForks, !yes("fork")},
		{query.RcOnlyArchived, yes("archived")},
		{query.RcNoArchived, !yes("archived")},
	}
	for _, c := range checks {
		if rc&c.mask != 0 && !c.ok {
			return false
		}
	}
	return true
}

// BranchMask returns the set of branch indexes (bitmask) of d selected by the branch atom.
func BranchMask(s *query.Branch, r *Repo, d *Doc) uint64 {
	var m uint64
	for i, b := range r.Branches {
		if !d.on(b) {
			continue
		}
		sel := false
		switch {
		case s.Pattern == "":
			sel = true // an empty branch pattern is "no branch filter" (query.Simplify folds it to TRUE)
		case s.Pattern == "HEAD" && !s.Exact:
			sel = i == 0 // "HEAD" is an alias for the first indexed branch
		case s.Exact:
			sel = b == s.Pattern
		default:
			sel = strings.Contains(b, s.Pattern)
		}
		if sel {
			m |= 1 << uint(i)
		}
	}
	return m
}

// SubstringRanges returns every occurrence (possibly overlapping) of pattern in text.
// Case-insensitive comparison is rune-wise on unicode.ToLower of both sides.
func SubstringRanges(pattern string, caseSensitive bool, text []byte) [][2]int {
	var out [][2]int
	if pattern == "" {
		return [][2]int{{0, 0}}
	}
	if caseSensitive {
		p := []byte(pattern)
		for i := 0; i+len(p) <= len(text); i++ {
			if bytes.Equal(text[i:i+len(p)], p) {
				out = append(out, [2]int{i, i + len(p)})
			}
		}
		return out
	}
	pr := []rune(pattern)
	for i := 0; i < len(text); {
		_, sz := utf8.DecodeRune(text[i:])
		j := i
		ok := true
		for _, p := range pr {
			if j >= len(text) {
				ok = false
				break
			}
			tr, tsz := utf8.DecodeRune(text[j:])
			if unicode.ToLower(tr) != unicode.ToLower(p) {
				ok = false
				break
			}
			j += tsz
		}
		if ok {
			out = append(out, [2]int{i, j})
		}
		i += sz
	}
	return out
}

// NonOverlapping keeps successive leftmost non-overlapping ranges (input sorted by start).
func NonOverlapping(rs [][2]int) [][2]int {
	var out [][2]int
	end := -1
	for _, r := range rs {
		if r[0] >= end {
			out = append(out, r)
			end = r[1]
		}
	}
	return out
}

// CompileStd compiles the pattern with the standard library engine under
// zoekt's regexp flags ((?m) is implied by the parser flags; case folding by (?i)).
func CompileStd(pattern string, caseSensitive bool) *regexp.Regexp {
	p := pattern
	if !caseSensitive {
		p = "(?i)" + p
	}
	if re, ok := reCache.Load(p); ok {
		return re.(*regexp.Regexp)
	}
	re := regexp.MustCompile(p)
	reCache.Store(p, re)
	return re
}

var reCache sync.Map

// RegexpRanges returns the standard engine's successive matches (including empty ones).
func RegexpRanges(pattern string, caseSensitive bool, text []byte) [][2]int {
	re := CompileStd(pattern, caseSensitive)
	var out [][2]int
	for _, m := range re.FindAllIndex(text, -1) {
		out = append(out, [2]int{m[0], m[1]})
	}
	return out
}

// SymbolRanges returns, per symbol section of d, the match the symbol atom finds in it.
func SymbolRanges(s *query.Symbol, d *Doc) [][2]int {
	var out [][2]int
	switch e := s.Expr.(type) {
	case *query.Substring:
		all := SubstringRanges(e.Pattern, e.CaseSensitive, d.Content)
		for _, m := range all {
			for _, sec := range d.Symbols {
				if m[0] >= sec[0] && m[1] <= sec[1] && m[0] < sec[1] {
					out = append(out, m)
					break
				}
			}
		}
	case *query.Regexp:
		re := CompileStd(e.Regexp.String(), e.CaseSensitive)
		for _, sec := range d.Symbols {
			if m := re.FindIndex(d.Content[sec[0]:sec[1]]); m != nil {
				out = append(out, [2]int{sec[0] + m[0], sec[0] + m[1]})
			}
		}
	default:
		panic(Unsupported{fmt.Sprintf("symbol expr %T", s.Expr)})
	}
	return out
}

// EvalCorpus evaluates q including type:repo sub-queries: a document of
// repository r satisfies type:repo(child) iff some live document of r (in the
// whole corpus) satisfies child.
func EvalCorpus(q query.Q, corpus []*Repo, r *Repo, d *Doc) bool {
	q2 := query.Map(q, func(x query.Q) query.Q {
		if t, ok := x.(*query.Type); ok && t.Type == query.TypeRepo {
			for _, rr := range corpus {
				if rr.Name != r.Name {
					continue
				}
				for _, dd := range rr.Docs {
					if Live(rr, dd) && EvalCorpus(t.Child, corpus, rr, dd) {
						return &query.Const{Value: true}
					}
				}
			}
			return &query.Const{Value: false}
		}
		return x
	})
	return Eval(q2, r, d)
}

// Lines is the line table of a content: Start[i] is the byte offset of line i
// (0-based), a trailing newline does not start another line unless followed by
// nothing (zoekt treats "a\n" as one line and "a\nb" as two).
type Lines struct {
	Content []byte
	Start   []int // start offset of each line
	End     []int // end offset excluding the newline
}

// NewLines splits content on '\n'.
func NewLines(content []byte) *Lines {
	l := &Lines{Content: content}
	start := 0
	for i, b := range content {
		if b == '\n' {
			l.Start = append(l.Start, start)
			l.End = append(l.End, i)
			start = i + 1
		}
	}
	if start < len(content) || len(content) == 0 {
		l.Start = append(l.Start, start)
		l.End = append(l.End, len(content))
	}
	return l
}

// LineOf returns the 0-based line containing byte offset off (a newline byte belongs to the line it ends).
func (l *Lines) LineOf(off int) int {
	i := sort.Search(len(l.Start), func(i int) bool { return l.Start[i] > off }) - 1
	if i < 0 {
		i = 0
	}
	return i
}
