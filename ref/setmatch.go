package ref

import (
	"regexp/syntax"
	"unicode"
	"unicode/utf8"
)

// SetMatcher decides regular expressions by brute force over the syntax tree:
// Ends(pos) is the set of all end offsets e such that the expression matches
// text[pos:e] in the context of the whole text (so ^, $, \b see their
// neighbours). No preference order, no automaton; exponential in the worst
// case, used on texts of a few bytes.
type SetMatcher struct {
	re   *syntax.Regexp
	fold bool
	text []byte
}

// NewSetMatcher parses with the same flags zoekt's query parser uses.
func NewSetMatcher(pattern string, caseSensitive bool, flags syntax.Flags) (*SetMatcher, error) {
	re, err := syntax.Parse(pattern, flags)
	if err != nil {
		return nil, err
	}
	return &SetMatcher{re: re.Simplify(), fold: !caseSensitive}, nil
}

// Init builds a matcher from an already parsed tree.
func (m *SetMatcher) Init(re *syntax.Regexp, caseSensitive bool) *SetMatcher {
	return &SetMatcher{re: re.Simplify(), fold: !caseSensitive}
}

// On binds the matcher to a text.
func (m *SetMatcher) On(text []byte) *SetMatcher {
	c := *m
	c.text = text
	return &c
}

// Ends returns all match ends for a match starting at pos.
func (m *SetMatcher) Ends(pos int) map[int]bool {
	return m.ends(m.re, map[int]bool{pos: true})
}

// Matches reports whether the expression matches anywhere in the text.
func (m *SetMatcher) Matches() bool {
	for i := 0; i <= len(m.text); i++ {
		if i < len(m.text) && !utf8.RuneStart(m.text[i]) {
			continue
		}
		if len(m.Ends(i)) > 0 {
			return true
		}
	}
	return false
}

// IsMatch reports whether text[s:e] is a match at that position.
func (m *SetMatcher) IsMatch(s, e int) bool { return m.Ends(s)[e] }

func isWord(b byte) bool {
	return b == '_' || (b >= '0' && b <= '9') || (b >= 'a' && b <= 'z') || (b >= 'A' && b <= 'Z')
}

func (m *SetMatcher) ends(re *syntax.Regexp, from map[int]bool) map[int]bool {
	out := map[int]bool{}
	if len(from) == 0 {
		return out
	}
	t := m.text
	switch re.Op {
	case syntax.OpNoMatch:
	case syntax.OpEmptyMatch:
		for p := range from {
			out[p] = true
		}
	case syntax.OpLiteral:
		fold := m.fold || re.Flags&syntax.FoldCase != 0
		for p := range from {
			q := p
			ok := true
			for _, r := range re.Rune {
				if q >= len(t) {
					ok = false
					break
				}
				tr, sz := utf8.DecodeRune(t[q:])
				if !runeEq(r, tr, fold) {
					ok = false
					break
				}
				q += sz
			}
			if ok {
				out[q] = true
			}
		}
	case syntax.OpCharClass:
		for p := range from {
			if p >= len(t) {
				continue
			}
			tr, sz := utf8.DecodeRune(t[p:])
			if classHas(re.Rune, tr, m.fold) {
				out[p+sz] = true
			}
		}
	case syntax.OpAnyCharNotNL, syntax.OpAnyChar:
		for p := range from {
			if p >= len(t) {
				continue
			}
			tr, sz := utf8.DecodeRune(t[p:])
			if re.Op == syntax.OpAnyCharNotNL && tr == '\n' {
				continue
			}
			out[p+sz] = true
		}
	case syntax.OpBeginLine:
		for p := range from {
			if p == 0 || t[p-1] == '\n' {
				out[p] = true
			}
		}
	case syntax.OpEndLine:
		for p := range from {
			if p == len(t) || t[p] == '\n' {
				out[p] = true
			}
		}
	case syntax.OpBeginText:
		if from[0] {
			out[0] = true
		}
	case syntax.OpEndText:
		if from[len(t)] {
			out[len(t)] = true
		}
	case syntax.OpWordBoundary, syntax.OpNoWordBoundary:
		for p := range from {
			a := p > 0 && isWord(t[p-1])
			b := p < len(t) && isWord(t[p])
			if (a != b) == (re.Op == syntax.OpWordBoundary) {
				out[p] = true
			}
		}
	case syntax.OpCapture:
		return m.ends(re.Sub[0], from)
	case syntax.OpConcat:
		cur := from
		for _, s := range re.Sub {
			cur = m.ends(s, cur)
		}
		return cur
	case syntax.OpAlternate:
		for _, s := range re.Sub {
			for e := range m.ends(s, from) {
				out[e] = true
			}
		}
	case syntax.OpStar, syntax.OpPlus:
		cur := from
		if re.Op == syntax.OpStar {
			for p := range from {
				out[p] = true
			}
		}
		for {
			nxt := m.ends(re.Sub[0], cur)
			grew := false
			fresh := map[int]bool{}
			for e := range nxt {
				if !out[e] {
					out[e] = true
					fresh[e] = true
					grew = true
				}
			}
			if !grew {
				break
			}
			cur = fresh
		}
	case syntax.OpQuest:
		for p := range from {
			out[p] = true
		}
		for e := range m.ends(re.Sub[0], from) {
			out[e] = true
		}
	case syntax.OpRepeat:
		cur := from
		for i := 0; i < re.Min; i++ {
			cur = m.ends(re.Sub[0], cur)
		}
		for e := range cur {
			out[e] = true
		}
		if re.Max < 0 {
			for {
				nxt := m.ends(re.Sub[0], cur)
				fresh := map[int]bool{}
				for e := range nxt {
					if !out[e] {
						out[e] = true
						fresh[e] = true
					}
				}
				if len(fresh) == 0 {
					break
				}
				cur = fresh
			}
		} else {
			for i := re.Min; i < re.Max; i++ {
				cur = m.ends(re.Sub[0], cur)
				for e := range cur {
					out[e] = true
				}
			}
		}
	default:
		panic(Unsupported{"regexp op " + re.Op.String()})
	}
	return out
}

func runeEq(p, t rune, fold bool) bool {
	if p == t {
		return true
	}
	if !fold {
		return false
	}
	for f := unicode.SimpleFold(p); f != p; f = unicode.SimpleFold(f) {
		if f == t {
			return true
		}
	}
	return false
}

func classHas(ranges []rune, r rune, fold bool) bool {
	in := func(x rune) bool {
		for i := 0; i+1 < len(ranges); i += 2 {
			if ranges[i] <= x && x <= ranges[i+1] {
				return true
			}
		}
		return false
	}
	if in(r) {
		return true
	}
	if fold {
		for f := unicode.SimpleFold(r); f != r; f = unicode.SimpleFold(f) {
			if in(f) {
				return true
			}
		}
	}
	return false
}
