// Package vatomic is a drop-in for the typed part of "sync/atomic" for zoekt
// files under exploration: every operation is a scheduling point of the
// active mc execution and is then performed with the real atomic.
package vatomic

import (
	"fmt"
	"sync/atomic"

	"github.com/sourcegraph/zoekt/internal/verifshim/mc"
)

// reg gives every typed atomic an identity and puts its value into the
// explorer's state key (visited-state pruning must distinguish values).
type reg struct{ id string }

func (r *reg) pt(op string, val func() string) {
	e := mc.Cur()
	if e == nil {
		return
	}
	if r.id == "" {
		r.id = e.NewObjID("atomic")
		id := r.id
		e.RegisterState(func() string { return id + ":" + val() })
	}
	e.Point(op, r.id, nil)
}

type Int32 struct {
	v atomic.Int32
	reg
}

func (x *Int32) st() string { return fmt.Sprint(x.v.Load()) }

func (x *Int32) Load() int32        { x.pt("atomic.Load", x.st); return x.v.Load() }
func (x *Int32) Store(n int32)      { x.pt("atomic.Store", x.st); x.v.Store(n) }
func (x *Int32) Add(n int32) int32  { x.pt("atomic.Add", x.st); return x.v.Add(n) }
func (x *Int32) Swap(n int32) int32 { x.pt("atomic.Swap", x.st); return x.v.Swap(n) }
func (x *Int32) CompareAndSwap(o, n int32) bool {
	x.pt("atomic.CompareAndSwap", x.st)
	return x.v.CompareAndSwap(o, n)
}

type Int64 struct {
	v atomic.Int64
	reg
}

func (x *Int64) st() string { return fmt.Sprint(x.v.Load()) }

func (x *Int64) Load() int64        { x.pt("atomic.Load", x.st); return x.v.Load() }
func (x *Int64) Store(n int64)      { x.pt("atomic.Store", x.st); x.v.Store(n) }
func (x *Int64) Add(n int64) int64  { x.pt("atomic.Add", x.st); return x.v.Add(n) }
func (x *Int64) Swap(n int64) int64 { x.pt("atomic.Swap", x.st); return x.v.Swap(n) }
func (x *Int64) CompareAndSwap(o, n int64) bool {
	x.pt("atomic.CompareAndSwap", x.st)
	return x.v.CompareAndSwap(o, n)
}

type Uint32 struct {
	v atomic.Uint32
	reg
}

func (x *Uint32) st() string { return fmt.Sprint(x.v.Load()) }

func (x *Uint32) Load() uint32         { x.pt("atomic.Load", x.st); return x.v.Load() }
func (x *Uint32) Store(n uint32)       { x.pt("atomic.Store", x.st); x.v.Store(n) }
func (x *Uint32) Add(n uint32) uint32  { x.pt("atomic.Add", x.st); return x.v.Add(n) }
func (x *Uint32) Swap(n uint32) uint32 { x.pt("atomic.Swap", x.st); return x.v.Swap(n) }
func (x *Uint32) CompareAndSwap(o, n uint32) bool {
	x.pt("atomic.CompareAndSwap", x.st)
	return x.v.CompareAndSwap(o, n)
}

type Uint64 struct {
	v atomic.Uint64
	reg
}

func (x *Uint64) st() string { return fmt.Sprint(x.v.Load()) }

func (x *Uint64) Load() uint64         { x.pt("atomic.Load", x.st); return x.v.Load() }
func (x *Uint64) Store(n uint64)       { x.pt("atomic.Store", x.st); x.v.Store(n) }
func (x *Uint64) Add(n uint64) uint64  { x.pt("atomic.Add", x.st); return x.v.Add(n) }
func (x *Uint64) Swap(n uint64) uint64 { x.pt("atomic.Swap", x.st); return x.v.Swap(n) }
func (x *Uint64) CompareAndSwap(o, n uint64) bool {
	x.pt("atomic.CompareAndSwap", x.st)
	return x.v.CompareAndSwap(o, n)
}

type Bool struct {
	v atomic.Bool
	reg
}

func (x *Bool) st() string { return fmt.Sprint(x.v.Load()) }

func (x *Bool) Load() bool       { x.pt("atomic.Load", x.st); return x.v.Load() }
func (x *Bool) Store(b bool)     { x.pt("atomic.Store", x.st); x.v.Store(b) }
func (x *Bool) Swap(b bool) bool { x.pt("atomic.Swap", x.st); return x.v.Swap(b) }
func (x *Bool) CompareAndSwap(o, n bool) bool {
	x.pt("atomic.CompareAndSwap", x.st)
	return x.v.CompareAndSwap(o, n)
}

type Pointer[T any] struct {
	v atomic.Pointer[T]
	reg
}

func (x *Pointer[T]) st() string { return fmt.Sprintf("%p", x.v.Load()) }

func (x *Pointer[T]) Load() *T     { x.pt("atomic.Load", x.st); return x.v.Load() }
func (x *Pointer[T]) Store(p *T)   { x.pt("atomic.Store", x.st); x.v.Store(p) }
func (x *Pointer[T]) Swap(p *T) *T { x.pt("atomic.Swap", x.st); return x.v.Swap(p) }
func (x *Pointer[T]) CompareAndSwap(o, n *T) bool {
	x.pt("atomic.CompareAndSwap", x.st)
	return x.v.CompareAndSwap(o, n)
}

type Value struct {
	v atomic.Value
	reg
}

func (x *Value) st() string { return fmt.Sprint(x.v.Load()) }

func (x *Value) Load() any      { x.pt("atomic.Load", x.st); return x.v.Load() }
func (x *Value) Store(v any)    { x.pt("atomic.Store", x.st); x.v.Store(v) }
func (x *Value) Swap(v any) any { x.pt("atomic.Swap", x.st); return x.v.Swap(v) }
func (x *Value) CompareAndSwap(o, n any) bool {
	x.pt("atomic.CompareAndSwap", x.st)
	return x.v.CompareAndSwap(o, n)
}

// plain variables used through the function API are identified by address
type addrKey struct{ p any }

func ptAddr[T any](op string, a *T) {
	e := mc.Cur()
	if e == nil {
		return
	}
	id, _ := e.Local(addrKey{a}).(string)
	if id == "" {
		id = e.NewObjID("atomicvar")
		e.PutLocal(addrKey{a}, id)
		e.RegisterState(func() string { return fmt.Sprint(id, ":", *a) })
	}
	e.Point(op, id, nil)
}

func AddInt32(a *int32, d int32) int32     { ptAddr("atomic.Add", a); return atomic.AddInt32(a, d) }
func AddInt64(a *int64, d int64) int64     { ptAddr("atomic.Add", a); return atomic.AddInt64(a, d) }
func AddUint32(a *uint32, d uint32) uint32 { ptAddr("atomic.Add", a); return atomic.AddUint32(a, d) }
func AddUint64(a *uint64, d uint64) uint64 { ptAddr("atomic.Add", a); return atomic.AddUint64(a, d) }
func LoadInt32(a *int32) int32             { ptAddr("atomic.Load", a); return atomic.LoadInt32(a) }
func LoadInt64(a *int64) int64             { ptAddr("atomic.Load", a); return atomic.LoadInt64(a) }
func LoadUint32(a *uint32) uint32          { ptAddr("atomic.Load", a); return atomic.LoadUint32(a) }
func LoadUint64(a *uint64) uint64          { ptAddr("atomic.Load", a); return atomic.LoadUint64(a) }
func StoreInt32(a *int32, v int32)         { ptAddr("atomic.Store", a); atomic.StoreInt32(a, v) }
func StoreInt64(a *int64, v int64)         { ptAddr("atomic.Store", a); atomic.StoreInt64(a, v) }
func StoreUint32(a *uint32, v uint32)      { ptAddr("atomic.Store", a); atomic.StoreUint32(a, v) }
func StoreUint64(a *uint64, v uint64)      { ptAddr("atomic.Store", a); atomic.StoreUint64(a, v) }
func CompareAndSwapInt32(a *int32, o, n int32) bool {
	ptAddr("atomic.CompareAndSwap", a)
	return atomic.CompareAndSwapInt32(a, o, n)
}
func CompareAndSwapInt64(a *int64, o, n int64) bool {
	ptAddr("atomic.CompareAndSwap", a)
	return atomic.CompareAndSwapInt64(a, o, n)
}
func CompareAndSwapUint32(a *uint32, o, n uint32) bool {
	ptAddr("atomic.CompareAndSwap", a)
	return atomic.CompareAndSwapUint32(a, o, n)
}
func CompareAndSwapUint64(a *uint64, o, n uint64) bool {
	ptAddr("atomic.CompareAndSwap", a)
	return atomic.CompareAndSwapUint64(a, o, n)
}
