// Package vos is a drop-in for the subset of "os" used by the zoekt files whose
// filesystem mutations the explorer must own (index/builder.go, tombstones.go,
// merge.go, cmd/zoekt-merge-index/main.go, indexserver meta.go). Without an
// active Session every call forwards to the real os package.
//
// With a Session, every *mutation* (mkdir, create, write, chmod, close, rename,
// remove) gets a sequence number and is appended to a log. Modes:
//
//	Record        forward everything
//	CrashAt(k)    mutations 1..k-1 are performed; from the k-th on every mutation is
//	              dropped and returns an error: the directory then holds exactly what a
//	              process killed before its k-th mutation leaves behind
//	FailAt(k)     the k-th mutation alone returns EIO (not performed); execution continues
//	FailOpen(k)   the k-th os.Open returns EIO
//
// Writes of more than one byte are split into two mutations so that a crash can tear a file.
package vos

import (
	"errors"
	"fmt"
	"io/fs"
	"os"
	"sync"
	"syscall"
)

type (
	FileMode = os.FileMode
	FileInfo = os.FileInfo
	DirEntry = os.DirEntry
	PathError = os.PathError
)

const (
	O_RDONLY = os.O_RDONLY
	O_WRONLY = os.O_WRONLY
	O_RDWR   = os.O_RDWR
	O_CREATE = os.O_CREATE
	O_TRUNC  = os.O_TRUNC
	O_EXCL   = os.O_EXCL
	O_APPEND = os.O_APPEND
	ModePerm = os.ModePerm
)

var (
	Args   = os.Args
	Stdin  = os.Stdin
	Stdout = os.Stdout
	Stderr = os.Stderr

	ErrNotExist = os.ErrNotExist
	ErrExist    = os.ErrExist
)

func Exit(code int)                         { os.Exit(code) }
func Getenv(k string) string                { return os.Getenv(k) }
func LookupEnv(k string) (string, bool)     { return os.LookupEnv(k) }
func Setenv(k, v string) error              { return os.Setenv(k, v) }
func Environ() []string                     { return os.Environ() }
func IsNotExist(err error) bool             { return os.IsNotExist(err) }
func IsExist(err error) bool                { return os.IsExist(err) }
func Stat(name string) (FileInfo, error)    { return os.Stat(name) }
func Lstat(name string) (FileInfo, error)   { return os.Lstat(name) }
func ReadFile(name string) ([]byte, error)  { return os.ReadFile(name) }
func ReadDir(name string) ([]DirEntry, error) { return os.ReadDir(name) }
func Getpid() int                           { return os.Getpid() }
func Hostname() (string, error)             { return os.Hostname() }
func TempDir() string                       { return os.TempDir() }
func Getwd() (string, error)                { return os.Getwd() }
func MkdirTemp(dir, pattern string) (string, error) { return os.MkdirTemp(dir, pattern) }


// Mutation is one logged filesystem mutation.
type Mutation struct {
	Seq   int    `json:"seq"`
	Op    string `json:"op"`
	Path  string `json:"path"`
	Path2 string `json:"path2,omitempty"`
	N     int    `json:"n,omitempty"`
	Done  bool   `json:"done"` // performed (false: dropped by crash / failed by injection)
}

type Mode int

const (
	Record Mode = iota
	Crash
	Fail
	FailOpenMode
)

// Session owns the fault model for one run of the code under test.
type Session struct {
	mu      sync.Mutex
	mode    Mode
	k       int
	seq     int
	opens   int
	Log     []Mutation
	Crashed bool
	Failed  *Mutation
}

var (
	curMu sync.Mutex
	cur   *Session
)

// Begin installs a session (one at a time per process).
func Begin(mode Mode, k int) *Session {
	curMu.Lock()
	defer curMu.Unlock()
	if cur != nil {
		panic("vos: nested sessions")
	}
	cur = &Session{mode: mode, k: k}
	return cur
}

// End removes the session.
func End() {
	curMu.Lock()
	cur = nil
	curMu.Unlock()
}

func session() *Session {
	curMu.Lock()
	defer curMu.Unlock()
	return cur
}

var errInjected = &os.PathError{Op: "vos", Path: "injected", Err: syscall.EIO}

// IsInjected reports whether err comes from the fault model.
func IsInjected(err error) bool { return errors.Is(err, syscall.EIO) }

// step numbers a mutation and decides whether it is performed.
func (s *Session) step(op, path, path2 string, n int) (perform bool, m *Mutation) {
	s.mu.Lock()
	defer s.mu.Unlock()
	s.seq++
	mu := Mutation{Seq: s.seq, Op: op, Path: path, Path2: path2, N: n, Done: true}
	switch s.mode {
	case Crash:
		if s.seq >= s.k {
			s.Crashed = true
			mu.Done = false
		}
	case Fail:
		if s.seq == s.k {
			mu.Done = false
		}
	}
	s.Log = append(s.Log, mu)
	m = &s.Log[len(s.Log)-1]
	if !mu.Done && s.mode == Fail {
		cp := mu
		s.Failed = &cp
	}
	return mu.Done, m
}

// Mutations returns the number of mutations seen so far.
func (s *Session) Mutations() int {
	s.mu.Lock()
	defer s.mu.Unlock()
	return s.seq
}

func mutate(op, path, path2 string, n int, f func() error) error {
	s := session()
	if s == nil {
		return f()
	}
	ok, _ := s.step(op, path, path2, n)
	if !ok {
		return &os.PathError{Op: op, Path: path, Err: syscall.EIO}
	}
	return f()
}

func MkdirAll(path string, perm FileMode) error {
	if st, err := os.Stat(path); err == nil && st.IsDir() {
		return nil // not a mutation
	}
	return mutate("mkdir", path, "", 0, func() error { return os.MkdirAll(path, perm) })
}
func Mkdir(path string, perm FileMode) error {
	return mutate("mkdir", path, "", 0, func() error { return os.Mkdir(path, perm) })
}
func Rename(oldpath, newpath string) error {
	return mutate("rename", oldpath, newpath, 0, func() error { return os.Rename(oldpath, newpath) })
}
func Remove(name string) error {
	if _, err := os.Lstat(name); err != nil && os.IsNotExist(err) && session() != nil {
		return os.Remove(name) // removing nothing is not a mutation
	}
	return mutate("remove", name, "", 0, func() error { return os.Remove(name) })
}
func RemoveAll(name string) error {
	return mutate("removeall", name, "", 0, func() error { return os.RemoveAll(name) })
}
func WriteFile(name string, data []byte, perm FileMode) error {
	f, err := OpenFile(name, O_WRONLY|O_CREATE|O_TRUNC, perm)
	if err != nil {
		return err
	}
	_, err = f.Write(data)
	if err1 := f.Close(); err1 != nil && err == nil {
		err = err1
	}
	return err
}

// Open is not a mutation but can be made to fail (FailOpenMode).
func Open(name string) (*os.File, error) {
	if s := session(); s != nil {
		s.mu.Lock()
		s.opens++
		fail := s.mode == FailOpenMode && s.opens == s.k
		if fail {
			s.Failed = &Mutation{Seq: s.opens, Op: "open", Path: name}
		}
		s.mu.Unlock()
		if fail {
			return nil, &os.PathError{Op: "open", Path: name, Err: syscall.EIO}
		}
	}
	return os.Open(name)
}

// Opens returns how many Open calls the session saw.
func (s *Session) Opens() int {
	s.mu.Lock()
	defer s.mu.Unlock()
	return s.opens
}

// File wraps a file opened for writing.
type File struct {
	f    *os.File
	name string
	dead bool // created after the crash point: no real file behind it
}

func wrapCreate(op, hint string, create func() (*os.File, error)) (*File, error) {
	s := session()
	if s == nil {
		f, err := create()
		if err != nil {
			return nil, err
		}
		return &File{f: f, name: f.Name()}, nil
	}
	ok, m := s.step(op, hint, "", 0)
	if !ok {
		return nil, &os.PathError{Op: op, Path: hint, Err: syscall.EIO}
	}
	f, err := create()
	if err != nil {
		return nil, err
	}
	s.mu.Lock()
	m.Path = f.Name()
	s.mu.Unlock()
	return &File{f: f, name: f.Name()}, nil
}

func Create(name string) (*File, error) {
	return wrapCreate("create", name, func() (*os.File, error) { return os.Create(name) })
}
func CreateTemp(dir, pattern string) (*File, error) {
	return wrapCreate("create", dir+"/"+pattern, func() (*os.File, error) { return os.CreateTemp(dir, pattern) })
}
func OpenFile(name string, flag int, perm FileMode) (*File, error) {
	if flag&(O_WRONLY|O_RDWR|O_CREATE|O_TRUNC|O_APPEND) == 0 {
		f, err := os.OpenFile(name, flag, perm)
		if err != nil {
			return nil, err
		}
		return &File{f: f, name: name}, nil
	}
	return wrapCreate("create", name, func() (*os.File, error) { return os.OpenFile(name, flag, perm) })
}

func (f *File) Name() string { return f.name }
func (f *File) Fd() uintptr  { return f.f.Fd() }
func (f *File) Stat() (FileInfo, error) {
	return f.f.Stat()
}
func (f *File) Read(b []byte) (int, error)              { return f.f.Read(b) }
func (f *File) ReadAt(b []byte, off int64) (int, error) { return f.f.ReadAt(b, off) }
func (f *File) Seek(off int64, whence int) (int64, error) {
	return f.f.Seek(off, whence)
}
func (f *File) Sync() error {
	return mutate("sync", f.name, "", 0, func() error { return f.f.Sync() })
}
func (f *File) Chmod(mode FileMode) error {
	return mutate("chmod", f.name, "", 0, func() error { return f.f.Chmod(mode) })
}
func (f *File) Truncate(n int64) error {
	return mutate("truncate", f.name, "", int(n), func() error { return f.f.Truncate(n) })
}
func (f *File) Close() error {
	// Closing never changes what is on disk (no buffering in os.File); it is logged but always performed
	// so that descriptors do not leak in crash runs.
	if s := session(); s != nil {
		s.mu.Lock()
		s.Log = append(s.Log, Mutation{Seq: s.seq, Op: "close", Path: f.name, Done: true})
		s.mu.Unlock()
	}
	return f.f.Close()
}
func (f *File) WriteString(s string) (int, error) { return f.Write([]byte(s)) }
func (f *File) Write(b []byte) (int, error) {
	if session() == nil || len(b) <= 1 {
		var n int
		err := mutate("write", f.name, "", len(b), func() error {
			var e error
			n, e = f.f.Write(b)
			return e
		})
		return n, err
	}
	h := len(b) / 2
	total := 0
	for _, part := range [][]byte{b[:h], b[h:]} {
		var n int
		err := mutate("write", f.name, "", len(part), func() error {
			var e error
			n, e = f.f.Write(part)
			return e
		})
		total += n
		if err != nil {
			return total, err
		}
	}
	return total, nil
}

var _ fs.FileInfo = FileInfo(nil)

// String renders a mutation for reports.
func (m Mutation) String() string {
	if m.Path2 != "" {
		return fmt.Sprintf("#%d %s %s -> %s", m.Seq, m.Op, m.Path, m.Path2)
	}
	if m.N > 0 {
		return fmt.Sprintf("#%d %s %s (%d bytes)", m.Seq, m.Op, m.Path, m.N)
	}
	return fmt.Sprintf("#%d %s %s", m.Seq, m.Op, m.Path)
}
