// Package vsema is a drop-in for golang.org/x/sync/semaphore.Weighted whose
// operations are scheduling points of mc.Sched. Semantics follow x/sync
// v0.22: FIFO waiters, a done context wins over an available token both on
// entry and on wake-up, a cancelled waiter that was already granted returns
// its tokens, releasing more than held panics.
package vsema

import (
	"context"
	"fmt"

	real "golang.org/x/sync/semaphore"

	"github.com/sourcegraph/zoekt/internal/verifshim/mc"
)

type waiter struct {
	n       int64
	granted bool
	thread  int
}

type Weighted struct {
	real    *real.Weighted
	size    int64
	cur     int64
	waiters []*waiter
	id      string
	// bookkeeping for oracles
	MaxCur   int64
	Acquired int
	Released int
	Failed   int
}

func NewWeighted(n int64) *Weighted {
	return &Weighted{real: real.NewWeighted(n), size: n}
}

// Snapshot is exported for oracles in harnesses.
func (s *Weighted) Snapshot() (size, cur int64, waiters int) { return s.size, s.cur, len(s.waiters) }

func (s *Weighted) name(e *mc.Exec) string {
	if s.id == "" {
		s.id = e.NewObjID("sem")
		e.RegisterState(func() string {
			w := ""
			for _, x := range s.waiters {
				w += fmt.Sprintf("(%d,%v,%d)", x.n, x.granted, x.thread)
			}
			return fmt.Sprintf("%s:%d/%d[%s]", s.id, s.cur, s.size, w)
		})
	}
	return s.id
}

func (s *Weighted) notifyWaiters() {
	for len(s.waiters) > 0 {
		w := s.waiters[0]
		if s.size-s.cur < w.n {
			break
		}
		s.cur += w.n
		s.note()
		w.granted = true
		s.waiters = s.waiters[1:]
	}
}

func (s *Weighted) note() {
	if s.cur > s.MaxCur {
		s.MaxCur = s.cur
	}
}

func (s *Weighted) Acquire(ctx context.Context, n int64) error {
	e := mc.Cur()
	if e == nil {
		return s.real.Acquire(ctx, n)
	}
	e.Point("sem.Acquire", s.name(e), nil)
	if e.Aborted() {
		return context.Canceled
	}
	if ctx.Err() != nil {
		s.Failed++
		return ctx.Err()
	}
	if s.size-s.cur >= n && len(s.waiters) == 0 {
		s.cur += n
		s.note()
		s.Acquired++
		return nil
	}
	if n > s.size {
		e.Point("sem.AcquireDoomed", s.id, func() bool { return ctx.Err() != nil })
		s.Failed++
		return ctx.Err()
	}
	w := &waiter{n: n, thread: e.Self().ID}
	s.waiters = append(s.waiters, w)
	e.Point("sem.AcquireWake", s.id, func() bool { return w.granted || ctx.Err() != nil })
	if e.Aborted() {
		return context.Canceled
	}
	if ctx.Err() != nil {
		if w.granted {
			s.cur -= n
			s.notifyWaiters()
		} else {
			front := len(s.waiters) > 0 && s.waiters[0] == w
			for i, x := range s.waiters {
				if x == w {
					s.waiters = append(s.waiters[:i:i], s.waiters[i+1:]...)
					break
				}
			}
			if front && s.size > s.cur {
				s.notifyWaiters()
			}
		}
		s.Failed++
		return ctx.Err()
	}
	s.Acquired++
	return nil
}

func (s *Weighted) TryAcquire(n int64) bool {
	e := mc.Cur()
	if e == nil {
		return s.real.TryAcquire(n)
	}
	e.Point("sem.TryAcquire", s.name(e), nil)
	if s.size-s.cur >= n && len(s.waiters) == 0 {
		s.cur += n
		s.note()
		s.Acquired++
		return true
	}
	return false
}

func (s *Weighted) Release(n int64) {
	e := mc.Cur()
	if e == nil {
		s.real.Release(n)
		return
	}
	e.Point("sem.Release", s.name(e), nil)
	if e.Aborted() {
		return
	}
	s.cur -= n
	s.Released++
	if s.cur < 0 {
		panic("semaphore: released more than held")
	}
	s.notifyWaiters()
}
