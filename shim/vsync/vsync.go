// Package vsync is a drop-in for the subset of "sync" that zoekt files under
// exploration use. With no active mc execution every type behaves as the real
// one; under an execution each operation is a scheduling point of mc.Sched.
package vsync

import (
	"fmt"
	"sort"
	"strings"
	"sync"

	"github.com/sourcegraph/zoekt/internal/verifshim/mc"
)

type Locker = sync.Locker
type Pool = sync.Pool

// Mutex ------------------------------------------------------------------
type Mutex struct {
	real sync.Mutex
	id   string
	held bool
	own  int
}

func (m *Mutex) name(e *mc.Exec) string {
	if m.id == "" {
		m.id = e.NewObjID("mu")
		e.RegisterState(func() string { return fmt.Sprintf("%s:%v", m.id, m.held) })
	}
	return m.id
}

func (m *Mutex) Lock() {
	e := mc.Cur()
	if e == nil {
		m.real.Lock()
		return
	}
	e.Point("Lock", m.name(e), func() bool { return !m.held })
	if e.Aborted() {
		return
	}
	m.held = true
}

func (m *Mutex) TryLock() bool {
	e := mc.Cur()
	if e == nil {
		return m.real.TryLock()
	}
	e.Point("TryLock", m.name(e), nil)
	if m.held {
		return false
	}
	m.held = true
	return true
}

func (m *Mutex) Unlock() {
	e := mc.Cur()
	if e == nil {
		m.real.Unlock()
		return
	}
	e.Point("Unlock", m.name(e), nil)
	if e.Aborted() {
		return
	}
	if !m.held {
		panic("vsync: unlock of unlocked mutex")
	}
	m.held = false
}

// RWMutex (writer preference as in Go: a pending Lock blocks new RLock) -----
type RWMutex struct {
	real           sync.RWMutex
	id             string
	readers        int
	writer         bool
	pendingWriters int
}

func (m *RWMutex) name(e *mc.Exec) string {
	if m.id == "" {
		m.id = e.NewObjID("rw")
		e.RegisterState(func() string { return fmt.Sprintf("%s:r%d w%v p%d", m.id, m.readers, m.writer, m.pendingWriters) })
	}
	return m.id
}

func (m *RWMutex) RLock() {
	e := mc.Cur()
	if e == nil {
		m.real.RLock()
		return
	}
	e.Point("RLock", m.name(e), func() bool { return !m.writer && m.pendingWriters == 0 })
	if e.Aborted() {
		return
	}
	m.readers++
}

func (m *RWMutex) RUnlock() {
	e := mc.Cur()
	if e == nil {
		m.real.RUnlock()
		return
	}
	e.Point("RUnlock", m.name(e), nil)
	if e.Aborted() {
		return
	}
	if m.readers <= 0 {
		panic("vsync: RUnlock of unlocked RWMutex")
	}
	m.readers--
}

func (m *RWMutex) Lock() {
	e := mc.Cur()
	if e == nil {
		m.real.Lock()
		return
	}
	// Announce first (the real Lock registers the writer, then waits for readers).
	e.Point("Lock.announce", m.name(e), nil)
	if e.Aborted() {
		return
	}
	m.pendingWriters++
	e.Point("Lock", m.name(e), func() bool { return !m.writer && m.readers == 0 })
	if e.Aborted() {
		return
	}
	m.pendingWriters--
	m.writer = true
}

func (m *RWMutex) Unlock() {
	e := mc.Cur()
	if e == nil {
		m.real.Unlock()
		return
	}
	e.Point("Unlock", m.name(e), nil)
	if e.Aborted() {
		return
	}
	if !m.writer {
		panic("vsync: Unlock of unlocked RWMutex")
	}
	m.writer = false
}

func (m *RWMutex) RLocker() Locker { return (*rlocker)(m) }

type rlocker RWMutex

func (r *rlocker) Lock()   { (*RWMutex)(r).RLock() }
func (r *rlocker) Unlock() { (*RWMutex)(r).RUnlock() }

// WaitGroup ----------------------------------------------------------------
type WaitGroup struct {
	real sync.WaitGroup
	id   string
	n    int
}

func (w *WaitGroup) name(e *mc.Exec) string {
	if w.id == "" {
		w.id = e.NewObjID("wg")
		e.RegisterState(func() string { return fmt.Sprintf("%s:%d", w.id, w.n) })
	}
	return w.id
}

func (w *WaitGroup) Add(d int) {
	e := mc.Cur()
	if e == nil {
		w.real.Add(d)
		return
	}
	e.Point("wg.Add", w.name(e), nil)
	w.n += d
	if w.n < 0 && !e.Aborted() {
		panic("vsync: negative WaitGroup counter")
	}
}
func (w *WaitGroup) Done() { w.Add(-1) }
func (w *WaitGroup) Wait() {
	e := mc.Cur()
	if e == nil {
		w.real.Wait()
		return
	}
	e.Point("wg.Wait", w.name(e), func() bool { return w.n == 0 })
}

// Once -----------------------------------------------------------------------
type Once struct {
	real sync.Once
	m    Mutex
	done bool
}

func (o *Once) Do(f func()) {
	e := mc.Cur()
	if e == nil {
		o.real.Do(f)
		return
	}
	o.m.Lock()
	defer o.m.Unlock()
	if !o.done {
		defer func() { o.done = true }()
		f()
	}
}

// Map --------------------------------------------------------------------
// Map is sync.Map with a scheduling point before every operation (each
// operation itself stays atomic, as sync.Map guarantees).
type Map struct {
	real sync.Map
	id   string
}

func (m *Map) pt(op string) {
	e := mc.Cur()
	if e == nil {
		return
	}
	if m.id == "" {
		m.id = e.NewObjID("map")
		e.RegisterState(func() string {
			var ks []string
			m.real.Range(func(k, v any) bool { ks = append(ks, fmt.Sprintf("%v=%v", k, v)); return true })
			sort.Strings(ks)
			return m.id + ":" + strings.Join(ks, ",")
		})
	}
	e.Point(op, m.id, nil)
}

func (m *Map) Load(key any) (any, bool) { m.pt("Map.Load"); return m.real.Load(key) }
func (m *Map) Store(key, value any)     { m.pt("Map.Store"); m.real.Store(key, value) }
func (m *Map) Delete(key any)           { m.pt("Map.Delete"); m.real.Delete(key) }
func (m *Map) Clear()                   { m.pt("Map.Clear"); m.real.Clear() }
func (m *Map) LoadOrStore(key, value any) (any, bool) {
	m.pt("Map.LoadOrStore")
	return m.real.LoadOrStore(key, value)
}
func (m *Map) LoadAndDelete(key any) (any, bool) {
	m.pt("Map.LoadAndDelete")
	return m.real.LoadAndDelete(key)
}
func (m *Map) Swap(key, value any) (any, bool) { m.pt("Map.Swap"); return m.real.Swap(key, value) }
func (m *Map) CompareAndSwap(key, old, new any) bool {
	m.pt("Map.CompareAndSwap")
	return m.real.CompareAndSwap(key, old, new)
}
func (m *Map) CompareAndDelete(key, old any) bool {
	m.pt("Map.CompareAndDelete")
	return m.real.CompareAndDelete(key, old)
}
func (m *Map) Range(f func(key, value any) bool) { m.pt("Map.Range"); m.real.Range(f) }
