// Package vtime is a drop-in for the subset of "time" used by zoekt files
// under exploration. The clock is owned by the explorer: Now() returns a
// virtual instant that only Advance moves, and every timer created under an
// mc execution is fired by an explicit environment event (a controlled thread
// "timer#k" whose single step delivers the tick), so "the time slice expired"
// can land at every scheduling point.
package vtime

import (
	"fmt"
	"sync"
	real "time"

	"github.com/sourcegraph/zoekt/internal/verifshim/mc"
)

type (
	Duration = real.Duration
	Time     = real.Time
	Month    = real.Month
)

const (
	Nanosecond  = real.Nanosecond
	Microsecond = real.Microsecond
	Millisecond = real.Millisecond
	Second      = real.Second
	Minute      = real.Minute
	Hour        = real.Hour
	RFC3339     = real.RFC3339
)

var (
	mu      sync.Mutex
	virtual bool
	now     = real.Unix(1_700_000_000, 0)
)

// SetVirtual switches Now() to the explorer-owned clock (harness use).
func SetVirtual(on bool, t Time) {
	mu.Lock()
	defer mu.Unlock()
	virtual = on
	if !t.IsZero() {
		now = t
	}
}

// Advance moves the virtual clock.
func Advance(d Duration) {
	mu.Lock()
	defer mu.Unlock()
	now = now.Add(d)
}

func Now() Time {
	mu.Lock()
	defer mu.Unlock()
	if virtual || mc.Cur() != nil {
		return now
	}
	return real.Now()
}

func Since(t Time) Duration { return Now().Sub(t) }
func Until(t Time) Duration { return t.Sub(Now()) }
func Unix(s, ns int64) Time  { return real.Unix(s, ns) }
func Sleep(d Duration) {
	if virtual || mc.Cur() != nil {
		return
	}
	real.Sleep(d)
}
func ParseDuration(s string) (Duration, error) { return real.ParseDuration(s) }
func After(d Duration) <-chan Time              { return real.After(d) }
func AfterFunc(d Duration, f func()) *real.Timer { return real.AfterFunc(d, f) }
func NewTicker(d Duration) *real.Ticker          { return real.NewTicker(d) }

// Timer mirrors time.Timer's exported surface (C, Stop, Reset).
type Timer struct {
	C      <-chan Time
	c      chan Time
	rt     *real.Timer
	active bool
	id     string
}

func NewTimer(d Duration) *Timer {
	e := mc.Cur()
	if e == nil {
		rt := real.NewTimer(d)
		return &Timer{C: rt.C, rt: rt}
	}
	t := &Timer{c: make(chan Time, 1), active: true, id: e.NewObjID("timer")}
	t.C = t.c
	e.RegisterState(func() string { return fmt.Sprintf("%s:%v:%d", t.id, t.active, len(t.c)) })
	e.GoWhen(t.id+".fire", func() bool { return t.active }, func() {
		if t.active {
			t.active = false
			t.c <- now
		}
	})
	return t
}

func (t *Timer) Stop() bool {
	if t.rt != nil {
		return t.rt.Stop()
	}
	was := t.active
	t.active = false
	return was
}

func (t *Timer) Reset(d Duration) bool {
	if t.rt != nil {
		return t.rt.Reset(d)
	}
	was := t.active
	t.active = true
	return was
}
