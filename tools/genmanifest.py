#!/usr/bin/env python3
"""Regenerates /verif/MANIFEST.json from checks.json + properties.jsonl."""
import json, os
V = os.path.dirname(os.path.dirname(os.path.abspath(__file__)))
checks = json.load(open(os.path.join(V, "checks.json")))
props = [json.loads(l) for l in open(os.path.join(V, "properties.jsonl")) if l.strip()]
na_reasons = {}
p = os.path.join(V, "not_applicable.json")
if os.path.exists(p):
    na_reasons = json.load(open(p))
m = {
    "version": 1,
    "setup_cmd": "python3 check.py setup",
    "hooks": {
        "guard": "verif",
        "enable": "go test -tags verif -overlay /verif/build/overlay.json (harness files, shim packages and import-rewritten copies of a few files are supplied by the overlay; /repo carries no hook code)",
        "baseline_off_cmd": "cd /repo && GOFLAGS=-mod=mod go test -json -vet=off -count=1 -timeout 25m ./...",
        "source_commits": [],
        "add_only": True,
    },
    "engines": [
        {"name": "mc", "path": "engine/mc", "serves_properties": sorted(checks.keys()),
         "kind_free_text": "hand-written explorer: controlled cooperative scheduler with deviation-bounded / state-pruned stateless DFS (Sched), explicit-state BFS over real objects, crash-point/fault enumeration over a recorded filesystem mutation log, exhaustive bounded input enumeration; all on the real zoekt code via go test -overlay"},
    ],
    "checks": [],
    "not_applicable": [],
    "notes": "All checks: python3 check.py <ID> quick|thorough; exit 0 held / 1 VIOLATION / 2 tree does not build with overlay. known_findings.json lists genuine defects recorded rather than repaired.",
}
for pr in props:
    i = pr["id"]
    if i in checks:
        c = checks[i]
        m["checks"].append({
            "property_id": i,
            "quick_cmd": "python3 check.py %s quick" % i,
            "thorough_cmd": "python3 check.py %s thorough" % i,
            "evidence_file": "/verif/evidence/%s.json" % i,
            "replay_cmd_template": "python3 check.py replay {path}",
            "engine": "mc",
            "level_claimed": {"category": c["category"], "text": c.get("text", ""), "design_ref": c.get("design_ref", "DESIGN.md §5 " + i)},
            "level_note": c.get("note", ""),
            "technique": c.get("technique", ""),
        })
    else:
        m["not_applicable"].append({"property_id": i, "reason": na_reasons.get(i, "no check built yet in this round; not claimed")})
json.dump(m, open(os.path.join(V, "MANIFEST.json"), "w"), indent=1)
print("checks:", len(m["checks"]), "not_applicable:", len(m["not_applicable"]))
