#!/usr/bin/env python3
"""Run every /verif/mutants/<ID>-<name>.patch against its check (scratch worktree, VERIF_REPO).

  mutants.py [ID-prefix ...]      results -> mutants/RESULTS.json (merged)
"""
import json, os, subprocess, sys, shutil, hashlib, time
VERIF = os.path.dirname(os.path.dirname(os.path.abspath(__file__)))
MD = os.path.join(VERIF, "mutants")
res_p = os.path.join(MD, "RESULTS.json")
results = json.load(open(res_p)) if os.path.exists(res_p) else {}
sel = sys.argv[1:]
HEAD = subprocess.check_output(["git", "-C", "/repo", "rev-parse", "--short", "HEAD"], text=True).strip()
lane, of = 0, 1
if sel and "/" in sel[0] and sel[0].replace("/", "").isdigit():  # "k/n": every n-th patch starting at k
    lane, of = map(int, sel[0].split("/"))
    sel = sel[1:]
_n = -1
for fn in sorted(os.listdir(MD)):
    if not fn.endswith(".patch"):
        continue
    _n += 1
    if _n % of != lane:
        continue
    if os.environ.get("MUT_SKIP_DONE") and results.get(fn, {}).get("repo_head") == HEAD and results[fn].get("caught"):
        continue
    pid = fn.split("-")[0]
    if sel and not any(fn.startswith(s) for s in sel):
        continue
    wt = "/tmp/mut-%s-%d" % (fn[:-6], os.getpid())
    subprocess.check_call(["git", "-C", "/repo", "worktree", "add", "--detach", wt, "HEAD"], stdout=subprocess.DEVNULL, stderr=subprocess.DEVNULL)
    try:
        a = subprocess.run(["git", "apply", os.path.join(MD, fn)], cwd=wt, stdout=subprocess.PIPE, stderr=subprocess.STDOUT, text=True)
        if a.returncode != 0:
            a = subprocess.run(["git", "apply", "--3way", os.path.join(MD, fn)], cwd=wt, stdout=subprocess.PIPE, stderr=subprocess.STDOUT, text=True)
        if a.returncode != 0:
            results[fn] = {"applies": False, "note": a.stdout[-300:]}
            print(fn, "DOES NOT APPLY")
            continue
        t0 = time.time()
        p = subprocess.run([sys.executable, os.path.join(VERIF, "check.py"), pid, "quick"], cwd=VERIF, env=dict(os.environ, VERIF_REPO=wt),
                           stdout=subprocess.PIPE, stderr=subprocess.STDOUT, text=True)
        viol = [l for l in p.stdout.splitlines() if l.startswith("VIOLATION")]
        results[fn] = {"applies": True, "exit": p.returncode, "violation_lines": len(viol), "caught": p.returncode == 1 and len(viol) > 0,
                       "wall_s": round(time.time() - t0, 1), "repo_head": subprocess.check_output(["git", "-C", "/repo", "rev-parse", "--short", "HEAD"], text=True).strip()}
        print(fn, results[fn])
    finally:
        subprocess.call(["git", "-C", "/repo", "worktree", "remove", "--force", wt], stdout=subprocess.DEVNULL, stderr=subprocess.DEVNULL)
        shutil.rmtree(os.path.join(VERIF, "build", "alt-" + hashlib.sha1(wt.encode()).hexdigest()[:8]), ignore_errors=True)
        cur = json.load(open(res_p)) if os.path.exists(res_p) else {}
        cur.update({fn: results[fn]} if fn in results else {})
        json.dump(cur, open(res_p, "w"), indent=1, sort_keys=True)
