#!/usr/bin/env python3
"""Evaluate one seeded defect produced by an independent sub-agent.

  seedeval.py <seed dir> [--check ID[,ID...]]

Steps (all in scratch worktrees outside /repo and /verif, removed afterwards):
  1. clean worktree: demo passes
  2. patched worktree: builds, the tests of the changed packages and their core importers pass, demo fails
  3. VERIF_REPO=<patched> python3 check.py <ID> quick  -> must exit 1 with a VIOLATION line
Writes /verif/seeded/<ID>/{patch.diff,<demo>,meta.json}.
"""
import json, os, shutil, subprocess, sys, time

VERIF = os.path.dirname(os.path.dirname(os.path.abspath(__file__)))
ENV = dict(os.environ, GOFLAGS="-mod=mod", GOPROXY="off")
ENV.pop("GOTOOLCHAIN", None)
CORE = [".", "./index", "./search", "./query", "./web", "./gitindex", "./cmd/zoekt-sourcegraph-indexserver", "./cmd/zoekt-webserver/grpc/server",
        "./cmd/zoekt-merge-index", "./cmd/zoekt-local-sync", "./cmd/zoekt-index", "./internal/archive", "./grpc/chunk", "./ignore", "./internal/hybridre2", "./internal/syntaxutil"]


STEPS = set(os.environ.get("SEEDEVAL_STEPS", "tests,checks").split(","))


def sh(cmd, cwd, timeout=3000):
    p = subprocess.run(cmd, cwd=cwd, env=ENV, shell=isinstance(cmd, str), stdout=subprocess.PIPE, stderr=subprocess.STDOUT, text=True, timeout=timeout)
    return p.returncode, p.stdout


def main():
    sd = os.path.abspath(sys.argv[1])
    meta = json.load(open(os.path.join(sd, "meta.json")))
    pid = meta["property"]
    checks = [pid]
    if "--check" in sys.argv:
        checks = sys.argv[sys.argv.index("--check") + 1].split(",")
    tag = "%s-%d" % (pid, os.getpid())
    clean, patched = "/tmp/seval-clean-" + tag, "/tmp/seval-patched-" + tag
    res = {"property": pid, "summary": meta.get("summary"), "needs": meta.get("needs"), "files_changed": meta.get("files_changed"),
           "demo_path_in_repo": meta.get("demo_path_in_repo"), "demo_cmd": meta.get("demo_cmd"), "author": "independent sub-agent (saw only the property text)",
           "repo_head": subprocess.check_output(["git", "-C", "/repo", "rev-parse", "--short", "HEAD"], text=True).strip(), "ran": []}
    try:
        for d in (clean, patched):
            subprocess.check_call(["git", "-C", "/repo", "worktree", "add", "--detach", d, "HEAD"], stdout=subprocess.DEVNULL, stderr=subprocess.DEVNULL)
        rc, out = sh(["git", "apply", os.path.join(sd, "patch.diff")], patched)
        res["patch_applies"] = rc == 0
        if rc != 0:
            res["error"] = "patch does not apply: " + out[-500:]
            return finish(sd, pid, res)
        rc, out = sh("go build ./... ", patched)
        res["builds"] = rc == 0
        res["ran"].append("go build ./... -> %d" % rc)
        # demo
        demo_rel = meta["demo_path_in_repo"]
        demo_src = None
        for dp, _, fs in os.walk(sd):
            for f in fs:
                if f == os.path.basename(demo_rel):
                    demo_src = os.path.join(dp, f)
        if demo_src is None:
            for dp, _, fs in os.walk(sd):
                for f in fs:
                    if f.endswith(".go"):
                        demo_src = os.path.join(dp, f)
        for d in (clean, patched):
            os.makedirs(os.path.dirname(os.path.join(d, demo_rel)), exist_ok=True)
            shutil.copy(demo_src, os.path.join(d, demo_rel))
        rc_c, out_c = sh(meta["demo_cmd"], clean, 1800)
        rc_p, out_p = sh(meta["demo_cmd"], patched, 1800)
        res["demo_passes_on_clean"] = rc_c == 0
        res["demo_fails_on_patched"] = rc_p != 0
        res["ran"].append("%s -> clean %d, patched %d" % (meta["demo_cmd"], rc_c, rc_p))
        res["demo_output_patched_tail"] = out_p[-800:]
        for d in (clean, patched):
            os.remove(os.path.join(d, demo_rel))
        # existing tests of the changed packages and the core packages importing them
        changed = sorted({"./" + os.path.dirname(f) if os.path.dirname(f) else "." for f in meta.get("files_changed", []) if f.endswith(".go")})
        rc, out = sh("go list -f '{{.ImportPath}} {{join .Imports \" \"}}' " + " ".join(CORE), patched)
        mod = "github.com/sourcegraph/zoekt"
        cimp = {(mod + p[1:]) if p != "." else mod for p in changed}
        pkgs = set(changed)
        for line in out.splitlines():
            parts = line.split()
            if parts and any(i in cimp for i in parts[1:]):
                pkgs.add("." + parts[0][len(mod):] if parts[0] != mod else ".")
        cmd = "go test -vet=off -count=1 -timeout 90m " + " ".join(sorted(pkgs))
        rc, out = (0, "") if "tests" not in STEPS else sh(cmd, patched, 6000)
        if rc != 0:  # one retry: some packages have timing-sensitive tests on a loaded machine
            rc, out = sh(cmd, patched, 6000)
        if "tests" in STEPS:
            res["existing_tests_pass"] = rc == 0
            res["ran"].append(cmd + " -> %d" % rc)
        if rc != 0:
            res["existing_tests_tail"] = out[-1200:]
        # our checks
        if "checks" in STEPS:
            res["checks"] = {}
        for cid in (checks if "checks" in STEPS else []):
            t0 = time.time()
            p = subprocess.run([sys.executable, os.path.join(VERIF, "check.py"), cid, "quick"], cwd=VERIF, env=dict(os.environ, VERIF_REPO=patched),
                               stdout=subprocess.PIPE, stderr=subprocess.STDOUT, text=True, timeout=3000)
            viol = [l for l in p.stdout.splitlines() if l.startswith("VIOLATION")]
            first = [l for l in p.stdout.splitlines() if l.strip().startswith("detail:")][:2]
            res["checks"][cid] = {"exit": p.returncode, "violation_lines": len(viol), "first_detail": first, "wall_s": round(time.time() - t0, 1),
                                  "cmd": "VERIF_REPO=<patched worktree> python3 check.py %s quick" % cid}
            res["ran"].append("VERIF_REPO=<patched> python3 check.py %s quick -> exit %d, %d VIOLATION lines" % (cid, p.returncode, len(viol)))
        if "checks" in STEPS:
            res["detected"] = any(v["exit"] == 1 and v["violation_lines"] > 0 for v in res["checks"].values())
    finally:
        for d in (clean, patched):
            subprocess.call(["git", "-C", "/repo", "worktree", "remove", "--force", d], stdout=subprocess.DEVNULL, stderr=subprocess.DEVNULL)
            alt = os.path.join(VERIF, "build", "alt-" + __import__("hashlib").sha1(d.encode()).hexdigest()[:8])
            shutil.rmtree(alt, ignore_errors=True)
    return finish(sd, pid, res)


def finish(sd, pid, res):
    suffix = sys.argv[sys.argv.index("--suffix") + 1] if "--suffix" in sys.argv else ""
    out = os.path.join(VERIF, "seeded", pid + suffix)
    os.makedirs(out, exist_ok=True)
    shutil.copy(os.path.join(sd, "patch.diff"), os.path.join(out, "patch.diff"))
    for dp, _, fs in os.walk(sd):
        for f in fs:
            if f.endswith(".go"):
                shutil.copy(os.path.join(dp, f), os.path.join(out, f + ".txt"))  # .txt: not compiled by anything
    mp = os.path.join(out, "meta.json")
    if STEPS != {"tests", "checks"} and os.path.exists(mp):  # partial re-run: keep what the other steps recorded
        old = json.load(open(mp))
        ran = old.get("ran", []) + [r for r in res.get("ran", []) if r not in old.get("ran", [])]
        if "tests" in STEPS:
            old.pop("existing_tests_tail", None)
        if "checks" not in STEPS:
            res.pop("checks", None)
        old.update(res)
        old["ran"] = ran
        res = old
    json.dump(res, open(mp, "w"), indent=1)
    print(pid, "valid_seed=%s detected=%s" % (res.get("demo_passes_on_clean") and res.get("demo_fails_on_patched") and res.get("existing_tests_pass"), res.get("detected")), res.get("checks"))
    return 0


if __name__ == "__main__":
    sys.exit(main())
