#!/usr/bin/env python3
"""Re-run the quick check of every stored seeded defect against the current /verif.

  seedrecheck.py [lane/of] [ID ...]     e.g. seedrecheck.py 0/3

For each /verif/seeded/<ID>[-rN]/patch.diff: scratch worktree of /repo HEAD, apply, VERIF_REPO=<wt> check.py <ID> quick,
record the outcome under "recheck" in its meta.json (verif commit, repo head, exit, VIOLATION lines), remove the worktree.
"""
import json, os, subprocess, sys, hashlib, shutil, time
V = os.path.dirname(os.path.dirname(os.path.abspath(__file__)))
args = sys.argv[1:]
lane, of = 0, 1
if args and "/" in args[0]:
    lane, of = map(int, args[0].split("/")); args = args[1:]
dirs = sorted(d for d in os.listdir(os.path.join(V, "seeded")) if os.path.exists(os.path.join(V, "seeded", d, "patch.diff")))
if args:
    dirs = [d for d in dirs if d in args]
dirs = [d for i, d in enumerate(dirs) if i % of == lane]
EXTRA = json.load(open(os.path.join(V, "seeded", "CHECKS.json"))) if os.path.exists(os.path.join(V, "seeded", "CHECKS.json")) else {}
vhead = subprocess.check_output(["git", "-C", V, "rev-parse", "--short", "HEAD"], text=True).strip()
rhead = subprocess.check_output(["git", "-C", "/repo", "rev-parse", "--short", "HEAD"], text=True).strip()
for d in dirs:
    pid = d.split("-")[0]
    wt = "/tmp/srck-%s-%d" % (d, os.getpid())
    subprocess.check_call(["git", "-C", "/repo", "worktree", "add", "--detach", wt, "HEAD"], stdout=subprocess.DEVNULL, stderr=subprocess.DEVNULL)
    try:
        a = subprocess.run(["git", "apply", os.path.join(V, "seeded", d, "patch.diff")], cwd=wt, stdout=subprocess.PIPE, stderr=subprocess.STDOUT, text=True)
        if a.returncode != 0:
            a = subprocess.run(["git", "apply", "--3way", os.path.join(V, "seeded", d, "patch.diff")], cwd=wt, stdout=subprocess.PIPE, stderr=subprocess.STDOUT, text=True)
        mp = os.path.join(V, "seeded", d, "meta.json")
        m = json.load(open(mp))
        if a.returncode != 0:
            m["recheck"] = {"verif": vhead, "repo_head": rhead, "applies": False, "note": a.stdout[-300:]}
        else:
            t0 = time.time()
            # the property the seed author aimed at, plus other checks known to report it (seeded/CHECKS.json)
            res = {}
            for cid in EXTRA.get(d, [pid]):
                p = subprocess.run([sys.executable, os.path.join(V, "check.py"), cid, "quick"], cwd=V, env=dict(os.environ, VERIF_REPO=wt), stdout=subprocess.PIPE, stderr=subprocess.STDOUT, text=True)
                viol = [l for l in p.stdout.splitlines() if l.startswith("VIOLATION")]
                res[cid] = {"exit": p.returncode, "violation_lines": len(viol)}
            own = res.get(pid, {"exit": None, "violation_lines": 0})
            m["recheck"] = {"verif": vhead, "repo_head": rhead, "applies": True, "exit": own["exit"], "violation_lines": own["violation_lines"], "by_check": res,
                            "detected": any(v["exit"] == 1 and v["violation_lines"] > 0 for v in res.values()), "wall_s": round(time.time() - t0, 1)}
        json.dump(m, open(mp, "w"), indent=1)
        print(d, m["recheck"], flush=True)
    finally:
        subprocess.call(["git", "-C", "/repo", "worktree", "remove", "--force", wt], stdout=subprocess.DEVNULL, stderr=subprocess.DEVNULL)
        shutil.rmtree(os.path.join(V, "build", "alt-" + hashlib.sha1(wt.encode()).hexdigest()[:8]), ignore_errors=True)
