#!/usr/bin/env python3
"""Re-run the quick check of every stored seeded defect against the current /verif.

  seedrecheck.py [lane/of] [ID ...]     e.g. seedrecheck.py 0/3

For each /verif/seeded/<ID>[-rN]/patch.diff: scratch worktree of /repo HEAD, apply, VERIF_REPO=<wt> check.py <ID> quick,
record the outcome under "recheck" in its meta.json (verif commit, repo head, exit, VIOLATION lines), remove the worktree.
"""
import json, os, subprocess, sys, hashlib, shutil, time
V = os.path.dirname(os.path.dirname(os.path.abspath(__file__)))
args = sys.argv[1:]
lane, of = 0, 1
if args and "/" in args[0]:
    lane, of = map(int, args[0].split("/")); args = args[1:]
dirs = sorted(d for d in os.listdir(os.path.join(V, "seeded")) if os.path.exists(os.path.join(V, "seeded", d, "patch.diff")))
if args:
    dirs = [d for d in dirs if d in args]
dirs = [d for i, d in enumerate(dirs) if i % of == lane]
vhead = subprocess.check_output(["git", "-C", V, "rev-parse", "--short", "HEAD"], text=True).strip()
rhead = subprocess.check_output(["git", "-C", "/repo", "rev-parse", "--short", "HEAD"], text=True).strip()
for d in dirs:
    pid = d.split("-")[0]
    wt = "/tmp/srck-%s-%d" % (d, os.getpid())
    subprocess.check_call(["git", "-C", "/repo", "worktree", "add", "--detach", wt, "HEAD"], stdout=subprocess.DEVNULL, stderr=subprocess.DEVNULL)
    try:
        a = subprocess.run(["git", "apply", os.path.join(V, "seeded", d, "patch.diff")], cwd=wt, stdout=subprocess.PIPE, stderr=subprocess.STDOUT, text=True)
        if a.returncode != 0:
            a = subprocess.run(["git", "apply", "--3way", os.path.join(V, "seeded", d, "patch.diff")], cwd=wt, stdout=subprocess.PIPE, stderr=subprocess.STDOUT, text=True)
        mp = os.path.join(V, "seeded", d, "meta.json")
        m = json.load(open(mp))
        if a.returncode != 0:
            m["recheck"] = {"verif": vhead, "repo_head": rhead, "applies": False, "note": a.stdout[-300:]}
        else:
            t0 = time.time()
            p = subprocess.run([sys.executable, os.path.join(V, "check.py"), pid, "quick"], cwd=V, env=dict(os.environ, VERIF_REPO=wt), stdout=subprocess.PIPE, stderr=subprocess.STDOUT, text=True)
            viol = [l for l in p.stdout.splitlines() if l.startswith("VIOLATION")]
            m["recheck"] = {"verif": vhead, "repo_head": rhead, "applies": True, "exit": p.returncode, "violation_lines": len(viol), "detected": p.returncode == 1 and len(viol) > 0, "wall_s": round(time.time() - t0, 1)}
        json.dump(m, open(mp, "w"), indent=1)
        print(d, m["recheck"], flush=True)
    finally:
        subprocess.call(["git", "-C", "/repo", "worktree", "remove", "--force", wt], stdout=subprocess.DEVNULL, stderr=subprocess.DEVNULL)
        shutil.rmtree(os.path.join(V, "build", "alt-" + hashlib.sha1(wt.encode()).hexdigest()[:8]), ignore_errors=True)
