#!/usr/bin/env python3
import json, os, glob
V = os.path.dirname(os.path.dirname(os.path.abspath(__file__)))
hist = json.load(open(os.path.join(V, "seeded", "HISTORY.json")))
rows = []
for mp in sorted(glob.glob(os.path.join(V, "seeded", "C*", "meta.json"))):
    m = json.load(open(mp))
    pid = os.path.basename(os.path.dirname(mp))
    valid = bool(m.get("demo_passes_on_clean") and m.get("demo_fails_on_patched") and m.get("existing_tests_pass"))
    ck = m.get("checks", {})
    det = "; ".join("%s: exit %s, %s VIOLATION lines" % (k, v["exit"], v["violation_lines"]) for k, v in ck.items())
    rows.append((pid, valid, m.get("detected"), (m.get("summary") or "").replace("\n", " ")[:220], (m.get("needs") or "").replace("\n", " ")[:200], det, hist.get(pid, "")))
with open(os.path.join(V, "seeded", "SUMMARY.md"), "w") as f:
    f.write("# Independently seeded defects\n\nEach change was written by a fresh sub-agent that saw only the property text (nothing from /verif), "
            "confirmed here in scratch worktrees by tools/seedeval.py (demo passes on the clean tree, fails on the patched tree, existing tests of the "
            "changed packages and their core importers pass) and then run against `check.py <ID> quick` with VERIF_REPO pointing at the patched worktree.\n\n")
    f.write("| property | seed confirmed | detected by quick check | change | needs | check result | history |\n|---|---|---|---|---|---|---|\n")
    for r in rows:
        f.write("| %s | %s | %s | %s | %s | %s | %s |\n" % (r[0], "yes" if r[1] else "NO", "yes" if r[2] else "NO", r[3], r[4], r[5], r[6]))
    n = len(rows); d = sum(1 for r in rows if r[2]); v = sum(1 for r in rows if r[1])
    f.write("\n%d seeds, %d confirmed as valid seeds, %d detected.\n" % (n, v, d))
print("rows", len(rows))
