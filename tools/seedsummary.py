#!/usr/bin/env python3
import json, os, glob
V = os.path.dirname(os.path.dirname(os.path.abspath(__file__)))
hist = json.load(open(os.path.join(V, "seeded", "HISTORY.json")))
rows = []
for mp in sorted(glob.glob(os.path.join(V, "seeded", "C*", "meta.json"))):
    m = json.load(open(mp))
    pid = os.path.basename(os.path.dirname(mp))
    rnd = {"": "1", "r2": "2", "r3": "3", "r4": "4"}.get(pid.partition("-")[2], "?")
    valid = bool(m.get("demo_passes_on_clean") and m.get("demo_fails_on_patched") and m.get("existing_tests_pass"))
    ck = m.get("checks", {})
    det = "; ".join("%s: exit %s, %s VIOLATION lines" % (k, v["exit"], v["violation_lines"]) for k, v in ck.items())
    rc = m.get("recheck") or {}
    now = ("yes (exit %s, %s lines; verif %s, repo %s)" % (rc.get("exit"), rc.get("violation_lines"), rc.get("verif"), rc.get("repo_head"))) if rc.get("detected") else \
          ("NO (%s)" % json.dumps({k: rc[k] for k in rc if k in ("applies", "exit", "violation_lines", "note")}) if rc else "-")
    first = "yes" if (m.get("detected") and pid not in hist) else ("after strengthening" if m.get("detected") or rc.get("detected") else "NO")
    rows.append((pid, rnd, valid, first, now, (m.get("summary") or "").replace("\n", " ").replace("|", "\\|")[:220], (m.get("needs") or "").replace("\n", " ").replace("|", "\\|")[:200], det, str(hist.get(pid, "")).replace("|", "\\|")))
with open(os.path.join(V, "seeded", "SUMMARY.md"), "w") as f:
    f.write("# Independently seeded defects\n\nEach change was written by a fresh sub-agent that saw only the property text (nothing from /verif; rounds 2 and 3 also got "
            "the one-line summaries of the earlier seeds for the same property and had to use a different mechanism), "
            "confirmed here in scratch worktrees by tools/seedeval.py (demo passes on the clean tree, fails on the patched tree, existing tests of the "
            "changed packages and their core importers pass) and then run against `check.py <ID> quick` with VERIF_REPO pointing at the patched worktree. "
            "\"history\" says what had to change when the first run missed a seed; \"current checks\" is the last run of tools/seedrecheck.py (every stored seed against the committed checks).\n\n")
    f.write("| seed | round | seed confirmed | detected | current checks | change | needs | first evaluation | history |\n|---|---|---|---|---|---|---|---|---|\n")
    for r in rows:
        f.write("| %s | %s | %s | %s | %s | %s | %s | %s | %s |\n" % (r[0], r[1], "yes" if r[2] else "NO", r[3], r[4], r[5], r[6], r[7], r[8]))
    for rnd in ("1", "2", "3", "4"):
        rr = [r for r in rows if r[1] == rnd]
        if rr:
            f.write("\nRound %s: %d seeds, %d confirmed as valid, %d detected at the first run, %d detected by the current checks (of %d re-checked).\n" % (
                rnd, len(rr), sum(1 for r in rr if r[2]), sum(1 for r in rr if r[3] == "yes"), sum(1 for r in rr if r[4].startswith("yes")), sum(1 for r in rr if r[4] != "-")))
print("rows", len(rows))
